---------------------------- MODULE LanceCommit ----------------------------
(* The Lance commit protocol at storage-call granularity (properties C01, C02, C10).

   One action per storage / external-store / lease call, transcribed from
     rust/lance/src/io/commit.rs                       commit_transaction, do_commit_detached_transaction
     rust/lance-table/src/io/commit.rs                 ConditionalPut / Rename / Unsafe handlers, CommitLock
                                                       handler, current_manifest_path, default_resolve_version
     rust/lance-table/src/io/commit/external_manifest.rs  ExternalManifestCommitHandler (commit, finalize,
                                                       resolve_latest_location, resolve_version_location)
     rust/lance/src/dataset/builder.rs, dataset.rs     open / checkout / versions()
   and cross-checked against call traces of the real code recorded through the harness gate store
   (harness/src/gate.rs, harness/src/bin/vh_commit.rs).

   Actors 1,2,4 are writers, 3,5 readers, 9 the auditing reader that the harness runs after every
   schedule (it is part of the trace specification only).  The scenario (handler, naming scheme,
   operation per actor, attempts) lives in the variable `cfg` so that the trace specification can
   switch scenario at every "reset" event; the model-checking configurations fix it in Init.

   A writer: opens the latest version (reader program), writes its data/deletion files, then loops
      LIST _versions (newer versions; conflict check; target = latest+1) ; PUT txn file ;
      [restore: resolve the old version] ; handler commit ; on conflict retry while attempts remain.
   Handler commit programs:
      condput  : PUT-IF-ABSENT final
      rename   : PUT staging ; RENAME-IF-ABSENT staging->final ; on AlreadyExists DELETE staging
      lock     : LOCK ; HEAD final ; PUT final ; UNLOCK(ok)      (present => UNLOCK(false), conflict)
      external : PUT staging ; EXT.put_if_not_exists(v, staging) ; any error => EXT.get(v): own staging =>
                 finalize; final path => HEAD+GET final, own transaction file => finalize; else DELETE
                 staging, conflict
                 finalize = COPY staging->final (NotFound => HEAD final, done) ;
                            EXT.put_if_exists(v, final) ; DELETE staging
      unsafe   : PUT final      (modelled; exempt from C02)
   Reader programs:
      latest   : LIST (pick the maximum attached version)        | external: EXT.get_latest ;
                 final path => HEAD final ; staging path => HEAD staging ; finalize ; none => LIST
      version v: [V1 naming: HEAD of the V2 name (NotFound)] ; HEAD final
                 | external: EXT.get(v) ; final => HEAD final ; staging => HEAD staging ; finalize ;
                   NotFound => [HEAD V2 name] ; HEAD final ; EXT.put_if_not_exists(v, final) best effort
   GETs of manifests are not interleaving points (the gate lets plain reads through): they belong
   to the step before them.

   Bare writers (operation "bare"): callers of CommitHandler::commit itself with a manifest from
   Manifest::new_from_previous.  No transaction file, no conflict-resolution reload, one attempt: the
   program is the handler program.  Such a manifest has no attempt identity beyond (writer, version), so the
   lost-response recovery of the external handler can only recognise its own *staging path*; once somebody
   else has finalized the commit the writer reports CommitConflict although its manifest is the published
   one ("bare lost response reported as conflict": accepted, it is what /repo HEAD does on purpose -- the
   alternative, treating "no name" as equal, lets a loser overwrite a published manifest).

   Deviations (as-built behaviour that differs from the intended design; Deviations = {} is the
   intended design):
      "ExtLostTreatedAsConflict"  (repaired in /repo) an error of EXT.put_if_not_exists whose effect WAS
                                  applied (lost response) is treated as a conflict: the staging manifest
                                  is deleted although the external store now points to it (DESIGN 8 #12)
      "ExtGetComparesPathOnly"    (first version of the repair) the path in the external store is compared
                                  with the own staging path only: a commit that a reader has meanwhile
                                  finalized is still taken for a lost race and is committed again
      "ExtStagingHeadHeuristic"   (second version of the repair) when the store holds the final path, "is our
                                  staging manifest gone?" decided whether the commit was ours; wrong whenever
                                  a finalizer has flipped the store but not yet deleted the staging manifest
      "ExtGetErrorDeletesStaging" (as built now) an error of EXT.get / of reading the final manifest in that
                                  branch is treated as "not ours": the staging manifest is deleted.  Together
                                  with a lost response of the put this is the old defect again (double fault)
      "EmptyTxnIdentityMatches"   (not the code: a seeded weakening) in the recovery branch two manifests that both
                                  name no transaction file compare equal, so a bare writer that lost the race for
                                  an already finalized version claims it and overwrites the published manifest
      "DetachedListingPanics"     resolving the latest version by listing panics when a detached
                                  manifest is listed on a V2-named table (fixed in /repo; kept so that
                                  a regression is recognised)
      "LeaseExpiresWhileHeld"     the lease of a live holder may expire (breaks the assumption under
                                  which a lock-based handler "provides atomic creation")
      "CreateRaceOverwrites"      (documentation only, see C11) *)
EXTENDS LanceStore

CONSTANTS Handler,      \* "condput" | "rename" | "lock" | "external" | "unsafe"
          NamingV2,     \* BOOLEAN: V2 manifest names
          InitMode,     \* "table": version 1 exists | "onboard": version 1 exists, external store empty
          Op1, Op2, Op4,        \* operation of writer 1,2,4: "append" "delete" "overwrite" "restore" "detached" "none"
          Att1, Att2, Att4,     \* attempts (CommitBuilder::with_max_retries, >= 1)
          RMode3, RMode5,       \* reader 3,5: 99 absent, 0 latest, 0 < v < 99 that version
          FailBudget, LostBudget, CrashBudget,
          Deviations,
          MaxVer                \* state constraint: versions explored

VARIABLES cfg,        \* scenario (constant during a behaviour of the model)
          ac,         \* actor -> record (program counter and locals)
          owner,      \* content token -> actor that built it (0 = setup)
          published,  \* ghost: version -> set of contents ever visible for it
          firstFinal, \* ghost: version -> first content seen at its final path (0 none)
          pubOK,      \* ghost: every version became visible as latest+1
          okRet,      \* ghost: set of <<version, content>> whose commit returned success
          marks,      \* ghost: rarely reached program points visited so far (kept in the VIEW so that
                      \*        scenario generation prints schedules that reach them)
          hist,       \* ghost: the schedule so far (scenario generation)
          last        \* ghost: label of the last call (trace validation)

mvars == <<obj, ext, lease, budget, cfg, ac, owner, published, firstFinal, pubOK, okRet, marks>>
vars  == <<obj, ext, lease, budget, cfg, ac, owner, published, firstFinal, pubOK, okRet, marks, hist, last>>
RarePcs == {"c_headfin", "c_headst", "c_extget", "f_headfinal", "v_extput", "v_headstaging", "o_headstaging", "v_alt2"}
View  == mvars

Actors  == {1, 2, 3, 4, 5, 9}
VRange  == 1..9
External == cfg.handler = "external"

NoFin == <<0, 0>>
Blank == [pc |-> "none", readV |-> 0, seen |-> 0, target |-> 0, attempt |-> 0, cur |-> 0,
          res |-> "none", ver |-> 0, aux |-> 0, txn |-> FALSE, fin |-> NoFin, cont |-> "none",
          rvq |-> 0, cont2 |-> "none", lk |-> "none", todo |-> <<>>, hr |-> 0, auxn |-> 0]

Terminal(a) == ac[a].pc \in {"none", "done", "crashed"}
Role(a) == LET o == cfg.op[a] IN
           IF o = "none" THEN "none" ELSE IF o = "read" THEN "reader" ELSE IF o = "audit" THEN "audit"
           ELSE "writer"
AuxN(op) == IF op \in {"append", "overwrite", "delete", "detached", "create"} THEN 1 ELSE 0

\* Conflict classification of `self` against an already committed `other` (Appendix A of DESIGN.md,
\* restricted to the operations used here; deletes of different rows of one fragment without
\* affected-row information are a retryable conflict).
Compat(self, other) ==
  IF self \in {"overwrite", "restore"} THEN "ok"
  ELSE IF other \in {"overwrite", "restore"} THEN "incompatible"
  ELSE IF self = "delete" /\ other = "delete" THEN "retryable"
  ELSE "ok"

OpOfContent(c) == IF c \in DOMAIN owner /\ owner[c] # 0 THEN cfg.op[owner[c]] ELSE "create"

\* ---- what readers can see ----------------------------------------------------------------------
VisibleIn(o, e)  == {p[2] : p \in {q \in DOMAIN o : IsFinal(q)}} \cup (IF External THEN DOMAIN e ELSE {})
Visible          == VisibleIn(obj, ext)
LatestIn(o, e)   == IF VisibleIn(o, e) = {} THEN 0 ELSE Max(VisibleIn(o, e))
ContentIn(o, e, v) == IF FinalP(v) \in DOMAIN o THEN o[FinalP(v)]
                      ELSE IF External /\ v \in DOMAIN e /\ e[v] \in DOMAIN o THEN o[e[v]] ELSE 0
ContentAt(v)     == ContentIn(obj, ext, v)

\* ---- bookkeeping shared by all call actions ---------------------------------------------------------
Call(a, f, op, cls, v, c, out) ==
  /\ CanFault(f)
  /\ budget' = Spend(f)
  /\ last' = [a |-> a, op |-> op, cls |-> cls, v |-> v, c |-> c, out |-> out]
  /\ hist' = Append(hist, <<a, f>>)
SetA(a, r)  == ac' = [ac EXCEPT ![a] = r]
Same(S)     == UNCHANGED S
Done(r, res) == [r EXCEPT !.pc = "done", !.res = res]
\* A HEAD issued by the object reader (`CloudObjectReader::size`, used when a manifest location has no
\* known size) is wrapped in do_with_retry: ANY error, NotFound included, is retried up to 3 times.
RetryOr(r, giveUp) == IF r.hr < 3 THEN [r EXCEPT !.hr = @ + 1] ELSE [giveUp EXCEPT !.hr = 0]

StartOpenPc == IF External THEN "o_ext" ELSE "o_list"
VStartPc    == IF External THEN "v_ext" ELSE IF cfg.v2 THEN "v_final" ELSE "v_alt"
CommitPc    == CASE cfg.handler = "condput"  -> "c_put"
                 [] cfg.handler = "unsafe"   -> "c_put"
                 [] cfg.handler = "rename"   -> "c_stage"
                 [] cfg.handler = "external" -> "c_stage"
                 [] cfg.handler = "lock"     -> "c_lock"

\* Are the rows written by the setup still in version v?  (the delete operation of writer a removes
\* the setup row with key a-1 and writes a deletion file only if that row is there)
RECURSIVE SetupRowsIn(_)
SetupRowsIn(v) ==
  IF v <= 1 \/ FinalP(v) \notin DOMAIN obj THEN TRUE
  ELSE LET op == OpOfContent(obj[FinalP(v)]) IN
       IF op = "overwrite" THEN FALSE ELSE IF op = "restore" THEN TRUE ELSE SetupRowsIn(v - 1)
AuxNeed(a, v) == IF cfg.op[a] = "delete" /\ ~SetupRowsIn(v) THEN 0 ELSE AuxN(cfg.op[a])

\* after the handle is open at version v
AfterOpen(a, r, v) ==
  LET r1 == [r EXCEPT !.readV = v, !.seen = v] IN
  CASE Role(a) = "reader" -> [Done(r1, "ok") EXCEPT !.ver = v]
    [] Role(a) = "audit"  -> [r1 EXCEPT !.pc = "a_list"]
    [] OTHER -> [r1 EXCEPT !.auxn = AuxNeed(a, v), !.pc = IF AuxNeed(a, v) > 0 THEN "w_aux" ELSE "w_list"]

\* after a version was resolved (cont2 says why it was being resolved)
AfterResolve(a, r) ==
  CASE r.cont2 = "read"    -> [Done([r EXCEPT !.readV = r.rvq], "ok") EXCEPT !.ver = r.rvq]
    [] r.cont2 = "restore" -> [r EXCEPT !.pc = CommitPc]
    [] r.cont2 = "audit"   -> IF Len(r.todo) = 0 THEN Done(r, "ok")
                              ELSE [r EXCEPT !.rvq = Head(r.todo), !.todo = Tail(r.todo), !.pc = VStartPc]
ResolveErr(a, r) ==
  IF r.cont2 = "audit" THEN Done(r, "audit_error") ELSE Done(r, "notfound")

ConflictR(a, r) ==
  IF r.attempt + 1 < cfg.att[a]
  THEN [r EXCEPT !.attempt = @ + 1, !.pc = "w_list", !.cur = 0, !.txn = FALSE, !.lk = "none"]
  ELSE Done(r, "conflict")
SuccessR(a, r) == [Done(r, "ok") EXCEPT !.ver = r.target]
OkRetWith(a, r) == IF cfg.op[a] = "detached" THEN okRet ELSE okRet \cup {<<r.target, r.cur>>}

\* continuation of the finalize sub-program
FinDone(a, r) ==
  CASE r.cont = "open"    -> AfterOpen(a, [r EXCEPT !.fin = NoFin], r.fin[1])
    [] r.cont = "resolve" -> AfterResolve(a, [r EXCEPT !.fin = NoFin])
    [] r.cont = "commit"  -> SuccessR(a, r)
FinErr(a, r) == Done(r, "error")

\* target path of the manifest a writer is committing
TargetP(a, r, c) == IF cfg.op[a] = "detached" THEN DetachedP(c) ELSE FinalP(r.target)
TargetCls(a)     == IF cfg.op[a] = "detached" THEN "detached" ELSE "final"
TargetV(a, r, c) == IF cfg.op[a] = "detached" THEN c ELSE r.target

\* =================================================================================================
\* Reader program: open the latest version
\* =================================================================================================
OList(a, f) ==
  LET r == ac[a] IN
  /\ r.pc = "o_list" /\ f \in {"ok", "fail"}
  /\ Call(a, f, "list", "vdir", -1, -1, IF f = "ok" THEN "ok" ELSE "fail")
  /\ Same(<<obj, ext, lease, owner, okRet>>)
  \* lance_io::ObjectStore::list wraps the listing in ListRetryStream (up to 5 retries of a failed
  \* list; the fault budgets used here are smaller): a failed LIST is simply issued again
  /\ SetA(a, IF f = "fail" THEN r
             ELSE IF cfg.v2 /\ HasDetached /\ Attached # {} /\ "DetachedListingPanics" \in cfg.dev
                  THEN Done(r, "panic")
             ELSE IF Attached = {} THEN Done(r, "notfound")
             ELSE AfterOpen(a, r, LatestListed))

OExtLatest(a, f) ==
  LET r == ac[a]
      v == ExtLatest
      p == IF v = 0 THEN <<"none", 0, 0>> ELSE ext[v] IN
  /\ r.pc = "o_ext" /\ f \in {"ok", "fail"}
  /\ Call(a, f, "ext_latest", IF f = "ok" /\ v # 0 THEN p[1] ELSE "other",
          IF f = "ok" /\ v # 0 THEN v ELSE -1, -1,
          IF f = "fail" THEN "fail" ELSE IF v = 0 THEN "notfound" ELSE "ok")
  /\ Same(<<obj, ext, lease, owner, okRet>>)
  /\ SetA(a, IF f = "fail" THEN Done(r, "error")
             ELSE IF v = 0 THEN [r EXCEPT !.pc = "o_list"]
             ELSE IF IsFinal(p) THEN [r EXCEPT !.rvq = v, !.pc = "o_headfinal"]
             ELSE [r EXCEPT !.fin = <<v, p[3]>>, !.cont = "open", !.pc = "o_headstaging"])

OHeadFinal(a, f) ==
  LET r == ac[a]
      out == HeadOut(FinalP(r.rvq), f) IN
  /\ r.pc = "o_headfinal" /\ f \in {"ok", "fail"}
  /\ Call(a, f, "head", "final", r.rvq, -1, out)
  /\ Same(<<obj, ext, lease, owner, okRet>>)
  /\ SetA(a, IF out = "ok" THEN AfterOpen(a, [r EXCEPT !.hr = 0], r.rvq)
             ELSE RetryOr(r, IF out = "notfound" THEN Done(r, "notfound") ELSE Done(r, "error")))

\* HEAD of the staging manifest the external store points to (shared by open and resolve)
HeadStaging(a, f) ==
  LET r == ac[a]
      out == HeadOut(StagingP(r.fin[1], r.fin[2]), f) IN
  /\ r.pc \in {"o_headstaging", "v_headstaging"} /\ f \in {"ok", "fail"}
  /\ Call(a, f, "head", "staging", r.fin[1], -1, out)
  /\ Same(<<obj, ext, lease, owner, okRet>>)
  /\ SetA(a, IF out = "ok" THEN [r EXCEPT !.pc = "f_copy"]
             ELSE IF out = "notfound" THEN Done(r, "notfound") ELSE Done(r, "error"))

\* =================================================================================================
\* finalize_manifest (writers after the external commit, readers repairing)
\* =================================================================================================
FCopy(a, f) ==
  LET r == ac[a]
      from == StagingP(r.fin[1], r.fin[2])
      to == FinalP(r.fin[1])
      out == CopyOut(from, f) IN
  /\ r.pc = "f_copy"
  /\ Call(a, f, "copy", "final", r.fin[1], IF out \in {"ok", "lost"} THEN obj[from] ELSE -1, out)
  /\ obj' = CopyEff(from, to, f)
  /\ Same(<<ext, lease, owner, okRet>>)
  /\ SetA(a, IF out = "ok" THEN [r EXCEPT !.pc = "f_flip"]
             ELSE IF out = "notfound" THEN [r EXCEPT !.pc = "f_headfinal"]
             ELSE FinErr(a, r))

FHeadFinal(a, f) ==
  LET r == ac[a]
      out == HeadOut(FinalP(r.fin[1]), f) IN
  /\ r.pc = "f_headfinal" /\ f \in {"ok", "fail"}
  /\ Call(a, f, "head", "final", r.fin[1], -1, out)
  /\ Same(<<obj, ext, lease, owner>>)
  /\ okRet' = IF out = "ok" /\ r.cont = "commit" THEN OkRetWith(a, r) ELSE okRet
  /\ SetA(a, IF out = "ok" THEN FinDone(a, r) ELSE FinErr(a, r))

FFlip(a, f) ==
  LET r == ac[a]
      out == ExtFlipOut(r.fin[1], f) IN
  /\ r.pc = "f_flip"
  /\ Call(a, f, "ext_put_if_exists", "final", r.fin[1], -1, out)
  /\ ext' = ExtFlipEff(r.fin[1], FinalP(r.fin[1]), f)
  /\ Same(<<obj, lease, owner, okRet>>)
  /\ SetA(a, IF out = "ok" THEN [r EXCEPT !.pc = "f_del"] ELSE FinErr(a, r))

FDel(a, f) ==
  LET r == ac[a]
      p == StagingP(r.fin[1], r.fin[2])
      out == DeleteOut(p, f) IN
  /\ r.pc = "f_del"
  /\ Call(a, f, "delete", "staging", r.fin[1], -1, out)
  /\ obj' = DeleteEff(p, f)
  /\ Same(<<ext, lease, owner>>)
  /\ okRet' = IF out \in {"ok", "notfound"} /\ r.cont = "commit" THEN OkRetWith(a, r) ELSE okRet
  /\ SetA(a, IF out \in {"ok", "notfound"} THEN FinDone(a, r) ELSE FinErr(a, r))

\* =================================================================================================
\* Reader program: resolve one version (rvq)
\* =================================================================================================
\* probe of the final manifest name in the naming scheme the table does NOT use
VHeadAlt(a, f) ==
  LET r == ac[a] IN
  /\ r.pc \in {"v_alt", "v_alt2", "v_alt_onb", "v_alt_onb2"} /\ f \in {"ok", "fail"}
  /\ Call(a, f, "head", "altfinal", r.rvq, -1, IF f = "ok" THEN "notfound" ELSE "fail")
  /\ Same(<<obj, ext, lease, owner, okRet>>)
  /\ SetA(a, IF r.pc = "v_alt2" /\ r.cont2 = "restore" THEN (IF f = "fail" THEN Done(r, "error") ELSE ResolveErr(a, r))
             ELSE IF r.pc = "v_alt2" THEN RetryOr(r, IF f = "fail" THEN Done(r, "error") ELSE ResolveErr(a, r))
             ELSE IF f = "fail" THEN Done(r, "error")
             ELSE IF r.pc = "v_alt_onb2" THEN ResolveErr(a, r)
             ELSE IF r.pc = "v_alt" THEN [r EXCEPT !.pc = "v_final"]
             ELSE [r EXCEPT !.pc = "v_final_onb"])

VHeadFinal(a, f) ==
  LET r == ac[a]
      out == HeadOut(FinalP(r.rvq), f) IN
  /\ r.pc = "v_final" /\ f \in {"ok", "fail"}
  /\ Call(a, f, "head", "final", r.rvq, -1, out)
  /\ Same(<<obj, ext, lease, owner, okRet>>)
  \* V2 naming without external store: this is default_resolve_version's direct HEAD of the V2 name;
  \* otherwise it is the object reader's HEAD (retried)
  \* restore reads the old manifest with read_manifest(): a direct HEAD, not retried either
  /\ SetA(a, IF out = "ok" THEN AfterResolve(a, [r EXCEPT !.hr = 0])
             ELSE IF cfg.v2 /\ ~External
                  THEN (IF out = "fail" THEN Done(r, "error") ELSE [r EXCEPT !.pc = "v_alt2"])
             ELSE IF r.cont2 = "restore" THEN (IF out = "fail" THEN Done(r, "error") ELSE ResolveErr(a, r))
             ELSE RetryOr(r, IF out = "fail" THEN Done(r, "error") ELSE ResolveErr(a, r)))

VExtGet(a, f) ==
  LET r == ac[a]
      found == ExtHas(r.rvq)
      p == IF found THEN ext[r.rvq] ELSE <<"none", 0, 0>> IN
  /\ r.pc = "v_ext" /\ f \in {"ok", "fail"}
  /\ Call(a, f, "ext_get", IF f = "ok" /\ found THEN p[1] ELSE "other", r.rvq, -1,
          IF f = "fail" THEN "fail" ELSE IF found THEN "ok" ELSE "notfound")
  /\ Same(<<obj, ext, lease, owner, okRet>>)
  /\ SetA(a, IF f = "fail" THEN Done(r, "error")
             ELSE IF ~found THEN [r EXCEPT !.pc = IF cfg.v2 THEN "v_final_onb0" ELSE "v_alt_onb"]
             ELSE IF IsFinal(p) THEN [r EXCEPT !.pc = "v_final"]
             ELSE [r EXCEPT !.fin = <<r.rvq, p[3]>>, !.cont = "resolve", !.pc = "v_headstaging"])

\* a version that the external store does not know (table written before the store was used)
VHeadFinalOnboard(a, f) ==
  LET r == ac[a]
      out == HeadOut(FinalP(r.rvq), f) IN
  \* V2 naming: default_resolve_version first HEADs the V2 name itself ("v_final_onb0": found => the handler's
  \* own HEAD of the same path follows; NotFound => the handler HEADs the V1 name, "v_alt_onb2")
  /\ r.pc \in {"v_final_onb0", "v_final_onb"} /\ f \in {"ok", "fail"}
  /\ Call(a, f, "head", "final", r.rvq, -1, out)
  /\ Same(<<obj, ext, lease, owner, okRet>>)
  /\ SetA(a, IF out = "fail" THEN Done(r, "error")
             ELSE IF r.pc = "v_final_onb0"
                  THEN [r EXCEPT !.pc = IF out = "ok" THEN "v_final_onb" ELSE "v_alt_onb2"]
             ELSE IF out = "ok" THEN [r EXCEPT !.pc = "v_extput"] ELSE ResolveErr(a, r))

VExtPutOnboard(a, f) ==     \* best effort: every outcome is ignored
  LET r == ac[a]
      out == ExtPutNewOut(r.rvq, f) IN
  /\ r.pc = "v_extput"
  /\ Call(a, f, "ext_put_if_absent", "final", r.rvq, -1, out)
  /\ ext' = ExtPutNewEff(r.rvq, FinalP(r.rvq), f)
  /\ Same(<<obj, lease, owner, okRet>>)
  /\ SetA(a, AfterResolve(a, r))

\* =================================================================================================
\* The auditing reader: versions() then every listed version is resolved and read
\* =================================================================================================
SortedSeq(S) == LET RECURSIVE Go(_)
                    Go(T) == IF T = {} THEN <<>>
                             ELSE LET m == CHOOSE x \in T : \A y \in T : x <= y IN <<m>> \o Go(T \ {m})
                IN Go(S)
AList(a, f) ==
  LET r == ac[a]
      vs == SortedSeq(Attached) IN
  /\ r.pc = "a_list" /\ f = "ok"
  /\ Call(a, f, "list", "vdir", -1, -1, "ok")
  /\ Same(<<obj, ext, lease, owner, okRet>>)
  /\ SetA(a, IF Len(vs) = 0 THEN Done(r, "ok")
             ELSE [r EXCEPT !.cont2 = "audit", !.rvq = Head(vs), !.todo = Tail(vs), !.pc = VStartPc])

\* =================================================================================================
\* Writer program
\* =================================================================================================
WAux(a, f) ==
  LET r == ac[a]
      out == PutOut(f) IN
  /\ r.pc = "w_aux"
  /\ Call(a, f, "put", IF cfg.op[a] = "delete" THEN "del" ELSE "data", -1, -1, out)
  /\ Same(<<obj, ext, lease, owner, okRet>>)
  /\ SetA(a, IF out # "ok" THEN Done([r EXCEPT !.aux = IF out = "lost" THEN @ + 1 ELSE @], "error")
             ELSE [r EXCEPT !.aux = @ + 1,
                            !.pc = IF r.aux + 1 < r.auxn THEN "w_aux"
                                   ELSE IF cfg.op[a] = "detached" THEN "w_txn" ELSE "w_list"])

\* load_and_sort_new_transactions + TransactionRebase: list, read the newer manifests, check conflicts
WList(a, f) ==
  LET r == ac[a]
      newer == {v \in Attached : v > r.seen}
      badv == {v \in newer : Compat(cfg.op[a], OpOfContent(obj[FinalP(v)])) # "ok"}
      first == CHOOSE v \in badv : \A w \in badv : v <= w
      latest == IF newer = {} THEN r.seen ELSE Max(newer) IN
  /\ r.pc = "w_list" /\ f \in {"ok", "fail"}
  /\ Call(a, f, "list", "vdir", -1, -1, IF f = "ok" THEN "ok" ELSE "fail")
  /\ Same(<<obj, ext, lease, owner, okRet>>)
  /\ SetA(a, IF f = "fail" THEN Done(r, "error")
             ELSE IF badv # {} THEN Done(r, Compat(cfg.op[a], OpOfContent(obj[FinalP(first)])))
             ELSE [r EXCEPT !.seen = latest, !.target = latest + 1, !.pc = "w_txn"])

WTxn(a, f) ==
  LET r == ac[a]
      out == PutOut(f) IN
  /\ r.pc = "w_txn"
  /\ Call(a, f, "put", "txn", -1, -1, out)
  /\ Same(<<obj, ext, lease, owner, okRet>>)
  /\ SetA(a, IF out # "ok" THEN Done(r, "error")
             ELSE IF cfg.op[a] = "restore"
                  THEN [r EXCEPT !.txn = TRUE, !.rvq = 1, !.cont2 = "restore", !.pc = VStartPc]
             ELSE [r EXCEPT !.txn = TRUE, !.pc = CommitPc])

\* ---- ConditionalPutCommitHandler: PUT with PutMode::Create ---------------------------------------
CPutIfAbsent(a, f, c) ==
  LET r == ac[a]
      p == TargetP(a, r, c)
      out == PutIfAbsentOut(p, f) IN
  /\ r.pc = "c_put" /\ cfg.handler = "condput"
  /\ Call(a, f, "put_if_absent", TargetCls(a), TargetV(a, r, c), c, out)
  /\ obj' = PutIfAbsentEff(p, c, f)
  /\ owner' = (c :> a) @@ owner
  /\ Same(<<ext, lease>>)
  /\ okRet' = IF out = "ok" THEN OkRetWith(a, [r EXCEPT !.cur = c]) ELSE okRet
  /\ SetA(a, LET r1 == [r EXCEPT !.cur = c] IN
             IF out = "ok" THEN SuccessR(a, r1)
             ELSE IF out = "exists" THEN ConflictR(a, r1) ELSE Done(r1, "error"))

\* ---- UnsafeCommitHandler, and the PUT of the lock-based handler ------------------------------------
CPut(a, f, c) ==
  LET r == ac[a]
      p == FinalP(r.target)
      out == PutOut(f)
      r1 == [r EXCEPT !.cur = c] IN
  /\ \/ r.pc = "c_put" /\ cfg.handler = "unsafe"
     \/ r.pc = "c_lput"
  /\ Call(a, f, "put", "final", r.target, c, out)
  /\ obj' = PutEff(p, c, f)
  /\ owner' = (c :> a) @@ owner
  /\ Same(<<ext, lease>>)
  /\ okRet' = IF out = "ok" /\ cfg.handler = "unsafe" THEN OkRetWith(a, r1) ELSE okRet
  /\ SetA(a, IF cfg.handler = "unsafe"
             THEN (IF out = "ok" THEN SuccessR(a, r1) ELSE Done(r1, "error"))
             ELSE [r1 EXCEPT !.pc = "c_unlock", !.lk = IF out = "ok" THEN "ok" ELSE "error"])

\* ---- staging PUT (rename and external handlers) ----------------------------------------------------
CStage(a, f, c) ==
  LET r == ac[a]
      out == PutOut(f)
      r1 == [r EXCEPT !.cur = c] IN
  /\ r.pc = "c_stage"
  /\ Call(a, f, "put", "staging", r.target, c, out)
  /\ obj' = PutEff(StagingP(r.target, c), c, f)
  /\ owner' = (c :> a) @@ owner
  /\ Same(<<ext, lease, okRet>>)
  /\ SetA(a, IF out = "ok" THEN [r1 EXCEPT !.pc = IF External THEN "c_ext" ELSE "c_rename"]
             ELSE Done(r1, "error"))

CRename(a, f) ==
  LET r == ac[a]
      from == StagingP(r.target, r.cur)
      to == FinalP(r.target)
      out == RenameOut(from, to, f) IN
  /\ r.pc = "c_rename"
  /\ Call(a, f, "rename_if_absent", "final", r.target, IF out \in {"ok", "lost"} THEN r.cur ELSE -1, out)
  /\ obj' = RenameEff(from, to, f)
  /\ Same(<<ext, lease, owner>>)
  /\ okRet' = IF out = "ok" THEN OkRetWith(a, r) ELSE okRet
  /\ SetA(a, IF out = "ok" THEN SuccessR(a, r)
             ELSE IF out = "exists" THEN [r EXCEPT !.pc = "c_delst"] ELSE Done(r, "error"))

\* DELETE of the own staging manifest after a lost race
CDelStaging(a, f) ==
  LET r == ac[a]
      p == StagingP(r.target, r.cur)
      out == DeleteOut(p, f) IN
  /\ r.pc = "c_delst"
  /\ Call(a, f, "delete", "staging", r.target, -1, out)
  /\ obj' = DeleteEff(p, f)
  /\ Same(<<ext, lease, owner, okRet>>)
  /\ SetA(a, IF External /\ out \in {"fail", "lost"} THEN Done(r, "error")   \* rename: errors ignored
             ELSE ConflictR(a, r))

\* ---- ExternalManifestCommitHandler: EXT.put_if_not_exists(v, staging) -------------------------------
\* Any error (AlreadyExists, a failed call, a lost response) is followed by EXT.get(v) to find out
\* whether the put was applied after all.  (Before the repair -- deviation "ExtLostTreatedAsConflict" --
\* every error was treated as a lost race: DELETE staging, conflict.)
CExtPut(a, f) ==
  LET r == ac[a]
      out == ExtPutNewOut(r.target, f) IN
  /\ r.pc = "c_ext"
  /\ Call(a, f, "ext_put_if_absent", "staging", r.target, -1, out)
  /\ ext' = ExtPutNewEff(r.target, StagingP(r.target, r.cur), f)
  /\ Same(<<obj, lease, owner, okRet>>)
  /\ SetA(a, IF out = "ok"
             THEN [r EXCEPT !.fin = <<r.target, r.cur>>, !.cont = "commit", !.pc = "f_copy"]
             ELSE IF "ExtLostTreatedAsConflict" \in cfg.dev THEN [r EXCEPT !.pc = "c_delst"]
             ELSE [r EXCEPT !.pc = "c_extget"])

\* EXT.get(v) after a failed put:
\*   our own staging path            => the commit happened: finalize it
\*   the final path of v             => read that manifest (HEAD final, GET final) and compare its
\*                                      transaction file name with ours (next action)
\*   anything else                   => a lost race: DELETE staging, conflict
\*   an error of EXT.get             => intended: give up with an error, leaving the staging manifest alone
\*                                      as built ("ExtGetErrorDeletesStaging"): DELETE staging, conflict
\* Older deviations: "ExtGetComparesPathOnly": the final path is a lost race too.
CExtGet(a, f) ==
  LET r == ac[a]
      found == ExtHas(r.target)
      p == IF found THEN ext[r.target] ELSE <<"none", 0, 0>>
      mine == found /\ p = StagingP(r.target, r.cur) IN
  /\ r.pc = "c_extget" /\ f \in {"ok", "fail"}
  /\ Call(a, f, "ext_get", IF f = "ok" /\ found THEN p[1] ELSE "other", r.target, -1,
          IF f = "fail" THEN "fail" ELSE IF found THEN "ok" ELSE "notfound")
  /\ Same(<<obj, ext, lease, owner, okRet>>)
  /\ SetA(a, IF f = "fail" /\ "ExtGetErrorDeletesStaging" \notin cfg.dev THEN Done(r, "error")
             ELSE IF f = "ok" /\ mine
             THEN [r EXCEPT !.fin = <<r.target, r.cur>>, !.cont = "commit", !.pc = "f_copy"]
             \* a bare manifest names no transaction file: it has no attempt identity, the final manifest is
             \* not even read (deviation "EmptyTxnIdentityMatches": it is read and "no name = no name" counts as ours)
             ELSE IF f = "ok" /\ found /\ IsFinal(p) /\ "ExtGetComparesPathOnly" \notin cfg.dev
                     /\ (cfg.op[a] # "bare" \/ "EmptyTxnIdentityMatches" \in cfg.dev)
             THEN [r EXCEPT !.pc = IF "ExtStagingHeadHeuristic" \in cfg.dev THEN "c_headst" ELSE "c_headfin"]
             ELSE [r EXCEPT !.pc = "c_delst"])

\* read_manifest(final path of v): a direct HEAD, then a GET (not an interleaving point).  The manifest
\* names the transaction file of the attempt that built it, so the writer recognises its own manifest.
\*   ours => finalize (COPY finds the staging manifest or not: both are fine) ; not ours => lost race
\*   error => intended: give up with an error ; as built ("ExtGetErrorDeletesStaging"): lost race
CHeadFinalOwn(a, f) ==
  LET r == ac[a]
      out == HeadOut(FinalP(r.target), f)
      mineFinal == /\ FinalP(r.target) \in DOMAIN obj
                   /\ \/ obj[FinalP(r.target)] = r.cur
                      \/ (cfg.op[a] = "bare" /\ "EmptyTxnIdentityMatches" \in cfg.dev
                            /\ OpOfContent(obj[FinalP(r.target)]) = "bare") IN
  /\ r.pc = "c_headfin" /\ f \in {"ok", "fail"}
  /\ Call(a, f, "head", "final", r.target, -1, out)
  /\ Same(<<obj, ext, lease, owner, okRet>>)
  /\ SetA(a, IF out = "ok" /\ mineFinal
             THEN [r EXCEPT !.fin = <<r.target, r.cur>>, !.cont = "commit", !.pc = "f_copy"]
             ELSE IF out # "ok" /\ "ExtGetErrorDeletesStaging" \notin cfg.dev THEN Done(r, "error")
             ELSE [r EXCEPT !.pc = "c_delst"])

\* (second version of the repair, deviation "ExtStagingHeadHeuristic") HEAD of the own staging manifest
\* when the store already holds the final path: NotFound => ours; found => lost race.  Wrong whenever a
\* finalizer of our commit has flipped the store but not yet deleted the staging manifest.
CHeadStaging(a, f) ==
  LET r == ac[a]
      out == HeadOut(StagingP(r.target, r.cur), f) IN
  /\ r.pc = "c_headst" /\ f \in {"ok", "fail"}
  /\ Call(a, f, "head", "staging", r.target, -1, out)
  /\ Same(<<obj, ext, lease, owner, okRet>>)
  /\ SetA(a, IF out = "notfound"
             THEN [r EXCEPT !.fin = <<r.target, r.cur>>, !.cont = "commit", !.pc = "f_copy"]
             ELSE [r EXCEPT !.pc = "c_delst"])

\* ---- CommitLock handler ----------------------------------------------------------------------------
CLock(a, f) ==
  LET r == ac[a] IN
  /\ r.pc = "c_lock" /\ f \in {"ok", "fail"}
  /\ f = "ok" => lease = 0          \* lock() waits while the lease is held
  /\ Call(a, f, "lock", "lease", r.target, -1, IF f = "ok" THEN "ok" ELSE "fail")
  /\ lease' = IF f = "ok" THEN a ELSE lease
  /\ Same(<<obj, ext, owner, okRet>>)
  /\ SetA(a, IF f = "ok" THEN [r EXCEPT !.pc = "c_head"] ELSE Done(r, "error"))

CHead(a, f) ==
  LET r == ac[a]
      out == HeadOut(FinalP(r.target), f) IN
  /\ r.pc = "c_head" /\ f \in {"ok", "fail"}
  /\ Call(a, f, "head", "final", r.target, -1, out)
  /\ Same(<<obj, ext, lease, owner, okRet>>)
  /\ SetA(a, IF out = "notfound" THEN [r EXCEPT !.pc = "c_lput"]
             ELSE [r EXCEPT !.pc = "c_unlock", !.lk = IF out = "ok" THEN "conflict" ELSE "error"])

CUnlock(a, f) ==
  LET r == ac[a]
      held == lease = a
      out == IF f = "fail" THEN "fail" ELSE IF ~held THEN "notheld" ELSE f IN
  /\ r.pc = "c_unlock"
  /\ Call(a, f, "unlock", "lease", r.target, -1, out)
  /\ lease' = IF f # "fail" /\ held THEN 0 ELSE lease
  /\ Same(<<obj, ext, owner>>)
  /\ okRet' = IF out \in {"ok", "notheld"} /\ r.lk = "ok" THEN OkRetWith(a, r) ELSE okRet
  /\ SetA(a, IF out \in {"fail", "lost"} THEN Done(r, "error")
             ELSE IF r.lk = "ok" THEN SuccessR(a, r)
             ELSE IF r.lk = "conflict" THEN ConflictR(a, r) ELSE Done(r, "error"))

\* the lease of a crashed holder expires (with "LeaseExpiresWhileHeld": of any holder)
Expire ==
  /\ lease # 0
  /\ ac[lease].pc = "crashed" \/ "LeaseExpiresWhileHeld" \in cfg.dev
  /\ lease' = 0
  /\ last' = [a |-> 0, op |-> "expire", cls |-> "other", v |-> -1, c |-> -1, out |-> "ok"]
  /\ hist' = Append(hist, <<0, "expire">>)
  /\ Same(<<obj, ext, budget, owner, okRet, ac>>)

\* a process dies between two of its calls
Crash(a) ==
  /\ ~Terminal(a) /\ Role(a) = "writer"
  /\ budget["crash"] > 0
  /\ budget' = [budget EXCEPT !["crash"] = @ - 1]
  /\ SetA(a, [ac[a] EXCEPT !.pc = "crashed", !.res = "crashed"])
  /\ last' = [a |-> a, op |-> "crash", cls |-> "other", v |-> -1, c |-> -1, out |-> "ok"]
  /\ hist' = Append(hist, <<a, "crash">>)
  /\ Same(<<obj, ext, lease, owner, okRet>>)

Step(a, f, c) ==
  \/ OList(a, f) \/ OExtLatest(a, f) \/ OHeadFinal(a, f) \/ HeadStaging(a, f)
  \/ FCopy(a, f) \/ FHeadFinal(a, f) \/ FFlip(a, f) \/ FDel(a, f)
  \/ VHeadAlt(a, f) \/ VHeadFinal(a, f) \/ VExtGet(a, f) \/ VHeadFinalOnboard(a, f) \/ VExtPutOnboard(a, f)
  \/ AList(a, f)
  \/ WAux(a, f) \/ WList(a, f) \/ WTxn(a, f)
  \/ CPutIfAbsent(a, f, c) \/ CPut(a, f, c) \/ CStage(a, f, c) \/ CRename(a, f) \/ CDelStaging(a, f)
  \/ CExtPut(a, f) \/ CExtGet(a, f) \/ CHeadStaging(a, f) \/ CHeadFinalOwn(a, f) \/ CLock(a, f) \/ CHead(a, f) \/ CUnlock(a, f)

\* ghost bookkeeping, evaluated after obj' and ext' are determined
Ghost ==
  /\ published' = [v \in VRange |-> published[v] \cup
                       (IF ContentIn(obj', ext', v) # 0 THEN {ContentIn(obj', ext', v)} ELSE {})]
  /\ firstFinal' = [v \in VRange |-> IF firstFinal[v] = 0 /\ FinalP(v) \in DOMAIN obj'
                                      THEN obj'[FinalP(v)] ELSE firstFinal[v]]
  /\ pubOK' = (pubOK /\ \A v \in VisibleIn(obj', ext') \ Visible : v = LatestIn(obj, ext) + 1)
  /\ marks' = marks \cup ({ac'[a].pc : a \in Actors} \cap RarePcs)
                     \cup (IF last'.op = "ext_get" /\ last'.cls = "final" /\ last'.a \in {1, 2, 4}
                              /\ ac[last'.a].pc = "c_extget" THEN {"extget_final"} ELSE {})

\* a fresh content token for the manifest built by actor a in its current attempt
Tok(a) == 10 * a + ac[a].attempt + 2

\* one named sub-action per storage call (so that TLC reports coverage per call kind)
N_OList == \E a \in Actors, f \in Faults : OList(a, f) /\ cfg' = cfg /\ Ghost
N_OExtLatest == \E a \in Actors, f \in Faults : OExtLatest(a, f) /\ cfg' = cfg /\ Ghost
N_OHeadFinal == \E a \in Actors, f \in Faults : OHeadFinal(a, f) /\ cfg' = cfg /\ Ghost
N_HeadStaging == \E a \in Actors, f \in Faults : HeadStaging(a, f) /\ cfg' = cfg /\ Ghost
N_FCopy == \E a \in Actors, f \in Faults : FCopy(a, f) /\ cfg' = cfg /\ Ghost
N_FHeadFinal == \E a \in Actors, f \in Faults : FHeadFinal(a, f) /\ cfg' = cfg /\ Ghost
N_FFlip == \E a \in Actors, f \in Faults : FFlip(a, f) /\ cfg' = cfg /\ Ghost
N_FDel == \E a \in Actors, f \in Faults : FDel(a, f) /\ cfg' = cfg /\ Ghost
N_VHeadAlt == \E a \in Actors, f \in Faults : VHeadAlt(a, f) /\ cfg' = cfg /\ Ghost
N_VHeadFinal == \E a \in Actors, f \in Faults : VHeadFinal(a, f) /\ cfg' = cfg /\ Ghost
N_VExtGet == \E a \in Actors, f \in Faults : VExtGet(a, f) /\ cfg' = cfg /\ Ghost
N_VHeadFinalOnboard == \E a \in Actors, f \in Faults : VHeadFinalOnboard(a, f) /\ cfg' = cfg /\ Ghost
N_VExtPutOnboard == \E a \in Actors, f \in Faults : VExtPutOnboard(a, f) /\ cfg' = cfg /\ Ghost
N_AList == \E a \in Actors, f \in Faults : AList(a, f) /\ cfg' = cfg /\ Ghost
N_WAux == \E a \in Actors, f \in Faults : WAux(a, f) /\ cfg' = cfg /\ Ghost
N_WList == \E a \in Actors, f \in Faults : WList(a, f) /\ cfg' = cfg /\ Ghost
N_WTxn == \E a \in Actors, f \in Faults : WTxn(a, f) /\ cfg' = cfg /\ Ghost
N_CRename == \E a \in Actors, f \in Faults : CRename(a, f) /\ cfg' = cfg /\ Ghost
N_CDelStaging == \E a \in Actors, f \in Faults : CDelStaging(a, f) /\ cfg' = cfg /\ Ghost
N_CExtPut == \E a \in Actors, f \in Faults : CExtPut(a, f) /\ cfg' = cfg /\ Ghost
N_CExtGet == \E a \in Actors, f \in Faults : CExtGet(a, f) /\ cfg' = cfg /\ Ghost
N_CHeadStaging == \E a \in Actors, f \in Faults : CHeadStaging(a, f) /\ cfg' = cfg /\ Ghost
N_CHeadFinalOwn == \E a \in Actors, f \in Faults : CHeadFinalOwn(a, f) /\ cfg' = cfg /\ Ghost
N_CLock == \E a \in Actors, f \in Faults : CLock(a, f) /\ cfg' = cfg /\ Ghost
N_CHead == \E a \in Actors, f \in Faults : CHead(a, f) /\ cfg' = cfg /\ Ghost
N_CUnlock == \E a \in Actors, f \in Faults : CUnlock(a, f) /\ cfg' = cfg /\ Ghost
N_CPutIfAbsent == \E a \in Actors, f \in Faults : CPutIfAbsent(a, f, Tok(a)) /\ cfg' = cfg /\ Ghost
N_CPut == \E a \in Actors, f \in Faults : CPut(a, f, Tok(a)) /\ cfg' = cfg /\ Ghost
N_CStage == \E a \in Actors, f \in Faults : CStage(a, f, Tok(a)) /\ cfg' = cfg /\ Ghost
N_Crash == \E a \in Actors : Crash(a) /\ cfg' = cfg /\ Ghost
N_Expire == Expire /\ cfg' = cfg /\ Ghost

Next ==
  \/ N_OList
  \/ N_OExtLatest
  \/ N_OHeadFinal
  \/ N_HeadStaging
  \/ N_FCopy
  \/ N_FHeadFinal
  \/ N_FFlip
  \/ N_FDel
  \/ N_VHeadAlt
  \/ N_VHeadFinal
  \/ N_VExtGet
  \/ N_VHeadFinalOnboard
  \/ N_VExtPutOnboard
  \/ N_AList
  \/ N_WAux
  \/ N_WList
  \/ N_WTxn
  \/ N_CRename
  \/ N_CDelStaging
  \/ N_CExtPut
  \/ N_CExtGet
  \/ N_CHeadStaging
  \/ N_CHeadFinalOwn
  \/ N_CLock
  \/ N_CHead
  \/ N_CUnlock
  \/ N_CPutIfAbsent
  \/ N_CPut
  \/ N_CStage
  \/ N_Crash
  \/ N_Expire

\* ---- initial state -----------------------------------------------------------------------------
StartRec(a, c) ==
  LET o == c.op[a] IN
  IF o = "none" THEN Blank
  ELSE IF o = "read" /\ c.rver[a] > 0
       THEN [Blank EXCEPT !.pc = IF c.handler = "external" THEN "v_ext" ELSE IF c.v2 THEN "v_final" ELSE "v_alt",
                          !.rvq = c.rver[a], !.cont2 = "read"]
  \* a bare writer calls CommitHandler::commit directly with a manifest built from version 1
  \* (Manifest::new_from_previous: version 2, no transaction file): its program is the handler program only
  ELSE IF o = "bare"
       THEN [Blank EXCEPT !.readV = 1, !.seen = 1, !.target = 2,
                          !.pc = CASE c.handler \in {"condput", "unsafe"} -> "c_put"
                                   [] c.handler \in {"rename", "external"} -> "c_stage"
                                   [] c.handler = "lock" -> "c_lock"]
  ELSE [Blank EXCEPT !.pc = IF c.handler = "external" THEN "o_ext" ELSE "o_list"]

RModeOp(m) == IF m = 99 THEN "none" ELSE "read"
MCcfg == [handler |-> Handler, v2 |-> NamingV2, init |-> InitMode,
          op   |-> (1 :> Op1) @@ (2 :> Op2) @@ (4 :> Op4) @@ (3 :> RModeOp(RMode3)) @@ (5 :> RModeOp(RMode5)) @@ (9 :> "none"),
          att  |-> (1 :> Att1) @@ (2 :> Att2) @@ (4 :> Att4) @@ (3 :> 1) @@ (5 :> 1) @@ (9 :> 1),
          rver |-> (1 :> 0) @@ (2 :> 0) @@ (4 :> 0) @@ (3 :> RMode3) @@ (5 :> RMode5) @@ (9 :> 0),
          dev  |-> Deviations]

InitWith(c) ==
  /\ cfg = c
  /\ obj = (FinalP(1) :> 1)
  /\ ext = IF c.handler = "external" /\ c.init = "table" THEN (1 :> FinalP(1)) ELSE <<>>
  /\ lease = 0
  /\ ac = [a \in Actors |-> StartRec(a, c)]
  /\ owner = (1 :> 0)
  /\ published = [v \in VRange |-> IF v = 1 THEN {1} ELSE {}]
  /\ firstFinal = [v \in VRange |-> IF v = 1 THEN 1 ELSE 0]
  /\ pubOK = TRUE
  /\ okRet = {<<1, 1>>}
  /\ marks = {}
  /\ hist = <<>>
  /\ last = [a |-> 0, op |-> "init", cls |-> "other", v |-> -1, c |-> -1, out |-> "ok"]

Init == /\ InitWith(MCcfg)
        /\ budget = [fail |-> FailBudget, lost |-> LostBudget, crash |-> CrashBudget]

Spec == Init /\ [][Next]_vars

Bounded == \A v \in Visible : v <= MaxVer

\* =================================================================================================
\* Properties
\* =================================================================================================
TypeOK ==
  /\ StoreTypeOK
  /\ \A a \in Actors : ac[a].pc \in STRING /\ ac[a].attempt \in Nat
  /\ pubOK \in BOOLEAN

ExemptC02 == cfg.handler = "unsafe" \/ "LeaseExpiresWhileHeld" \in cfg.dev

\* C02 / C10: at most one manifest content is ever visible for a version number
OneManifestPerVersion == ExemptC02 \/ \A v \in VRange : Cardinality(published[v]) <= 1
UniqueContentPerVersion == OneManifestPerVersion

\* C02: the object at a final manifest path never changes once it exists
ManifestsImmutableInv ==
  ExemptC02 \/ \A v \in VRange : firstFinal[v] # 0 =>
                                   (FinalP(v) \in DOMAIN obj /\ obj[FinalP(v)] = firstFinal[v])
ManifestsImmutable ==
  [][ExemptC02 \/ \A p \in DOMAIN obj : IsFinal(p) => (p \in DOMAIN obj' /\ obj'[p] = obj[p])]_vars

\* C02: mutual exclusion of the lock-based handler's critical section
InCritical(a) == ac[a].pc \in {"c_head", "c_lput", "c_unlock"}
AtMostOneLeaseHolder ==
  "LeaseExpiresWhileHeld" \in cfg.dev \/ Cardinality({a \in Actors : InCritical(a)}) <= 1

\* C01: published (attached) versions are exactly 1..N
DenseVersions == Visible = 1..LatestIn(obj, ext)
\* C01: every version became visible as (latest visible at that moment) + 1
TargetIsLatestPlusOne == pubOK
\* C01: a detached manifest is never what "latest" resolves to (readers' handles are attached versions)
DetachedNeverLatest ==
  \A a \in Actors : ac[a].readV # 0 => ac[a].readV \in Visible
\* C01: a visible manifest was built by a writer that had written all its files and its txn file
\*      (nothing partial is visible); and a writer that failed before its commit point left nothing visible
NoTornWrite ==
  /\ \A v \in Visible : LET c == ContentAt(v) IN
        c # 0 /\ c \in DOMAIN owner /\ owner[c] # 0 =>
            ac[owner[c]].aux >= ac[owner[c]].auxn
  /\ \A p \in DOMAIN obj : IsDetached(p) => ac[owner[obj[p]]].aux >= ac[owner[obj[p]]].auxn

\* C01: one write makes exactly one version (the contents of two visible versions never stem from the
\*      same writer; every writer performs one operation in this model)
WriteAppliedOnce ==
  ExemptC02 \/ \A v1, v2 \in Visible :
      (v1 # v2 /\ ContentAt(v1) # 0 /\ ContentAt(v2) # 0
         /\ ContentAt(v1) \in DOMAIN owner /\ ContentAt(v2) \in DOMAIN owner /\ owner[ContentAt(v1)] # 0)
      => owner[ContentAt(v1)] # owner[ContentAt(v2)]

\* sanity (expected to FAIL for the unsafe handler: shows that the invariant can fail at all)
OneManifestPerVersionStrict == \A v \in VRange : Cardinality(published[v]) <= 1

\* C10 (and C01): a version whose commit returned success keeps resolving to that content
CommittedNeverLost ==
  ExemptC02 \/ \A vc \in okRet : ContentAt(vc[1]) = vc[2]

\* C10: the external store never points at nothing, and agrees with the final manifest
ExtEntryResolvable ==
  External => \A v \in DOMAIN ext : ext[v] \in DOMAIN obj
ExtAgreesWithFinal ==
  External => \A v \in DOMAIN ext :
      (IsStaging(ext[v]) /\ FinalP(v) \in DOMAIN obj /\ ext[v] \in DOMAIN obj) => obj[FinalP(v)] = obj[ext[v]]

\* C10: a reader whose open / checkout succeeded leaves the version at the standard manifest path with
\*      the committed content, and the external store either points at that path or still at the staging
\*      manifest with the very same content (somebody else is in the middle of finalising it; e.g. a
\*      checkout that found the final manifest by HEAD while the writer had copied but not yet flipped)
ReaderRepairs ==
  External => \A a \in Actors :
      (ac[a].pc = "done" /\ ac[a].res = "ok" /\ Role(a) = "reader") =>
          LET v == ac[a].ver IN
          /\ FinalP(v) \in DOMAIN obj
          /\ v \in DOMAIN ext => (ext[v] = FinalP(v) \/ (IsStaging(ext[v]) /\ obj[FinalP(v)] = ext[v][3]))
\* and a writer that returned success as well
WriterFinalises ==
  External => \A vc \in okRet : FinalP(vc[1]) \in DOMAIN obj /\ (vc[1] \in DOMAIN ext => ext[vc[1]] = FinalP(vc[1]))

AllDone == \A a \in Actors : Terminal(a)
=============================================================================
