----------------------------- MODULE LanceRefs -----------------------------
(* Branches, tags and shallow clones as isolated references (property C09).

   Locations: the main table MAIN, named branches (a branch name is a sequence
   of one-character tokens, e.g. <<"a","/","b">>) and shallow clones (<<"#c1">>).
   Every location has its own version history; a version is abstracted to the
   set of logical rows it contains.  The object tree is a set of files, each
   owned by the location below whose directory it is stored:

        main      <root>/{_versions,data}/..
        branch b  <root>/tree/<segments of b>/{_versions,data}/..
        clone c   <clone dir>/{_versions,data}/..

   A version of a branch/clone references the data files of the rows it
   inherited in the directory of the location that wrote them (base paths), so a
   version is readable iff its manifest and all those data files exist.

   Deliberately left open (the property does not decide them, so no scenario
   is generated for them and the validator does not judge them):
     * deleting a branch from which another live branch / clone was created, or
       which a tag names (DeleteBranch is enabled only when NoDependents);
     * a shallow CLONE that loses inherited files to a cleanup of its source:
       docs/src/format/table/layout.md says the source "can be garbage collected
       independently" (the intended design here keeps such files; the trace
       validator counts the event as informational instead of reporting it).

   Deviations name behaviours of the code as built that differ from this
   intended design (none is enabled in the configuration that must hold):
     "CharPrefixCleanupPath"   Branches::get_cleanup_path compares names character-wise
                               (the code before /repo's "fix: deleting a branch compared branch
                               names character by character"; kept as a named variant)
     "SubBranchKeepsDir"       get_cleanup_path as built now (segment-wise): nothing is removed
                               when another branch lives below the deleted one
     "CleanupIgnoresDependents" cleanup of a location ignores files that versions of
                               other locations reference through base paths
     "CloneReadsHandleLocation" create_branch / shallow_clone read (handle's location,
                               version) instead of (referenced branch, version)
                               (the code before /repo's fix of ref_path; kept as a named variant) *)
EXTENDS LanceRefsOps, Json

CONSTANTS NameSet,     \* which branch names are in play (TLC cfg files cannot hold tuples): see NamesOf
          TagNames,    \* e.g. {"t1"}
          NClones,     \* number of shallow-clone targets (0..2)
          MaxSteps,
          OpKinds,     \* subset of {"write","branch","tag","clone","cleanup"}
          Deviations

\* branch names are token sequences; the sets contain prefix-related and sibling names
NamesOf(id) == CASE id = "a-ab-a/b"    -> {<<"a">>, <<"a", "b">>, <<"a", "/", "b">>}
                 [] id = "a/b-a/bc-b"  -> {<<"a", "/", "b">>, <<"a", "/", "b", "c">>, <<"b">>}
                 [] id = "a-a/b-b"     -> {<<"a">>, <<"a", "/", "b">>, <<"b">>}
                 [] id = "ab-a/b-a/bc" -> {<<"a", "b">>, <<"a", "/", "b">>, <<"a", "/", "b", "c">>}
                 [] id = "a-ab"        -> {<<"a">>, <<"a", "b">>}
                 [] id = "a-ab-a/b-a/bc" -> {<<"a">>, <<"a", "b">>, <<"a", "/", "b">>, <<"a", "/", "b", "c">>}
                 [] id = "a-a/b-a/bc-b"  -> {<<"a">>, <<"a", "/", "b">>, <<"a", "/", "b", "c">>, <<"b">>}
                 [] id = "all"         -> {<<"a">>, <<"a", "b">>, <<"a", "/", "b">>, <<"a", "/", "b", "c">>, <<"b">>}
Names == NamesOf(NameSet)
Clones == {<<"#c1">>, <<"#c2">>}  \cap  (IF NClones = 0 THEN {} ELSE IF NClones = 1 THEN {<<"#c1">>} ELSE {<<"#c1">>, <<"#c2">>})
ASSUME \A n \in Names : ValidBranch(n) /\ \A i \in 1..Len(Segs(n)) : Segs(n)[i] # "?"

Locs == {MAIN} \cup Names \cup Clones
ERR == {-1}
MaxRow == 3 + MaxSteps
NoRef == <<>>

VARIABLES cont,     \* Loc -> (version -> set of rows); <<>> when the location does not exist
          files,    \* set of [own, dir, id]
          live,     \* branches that have metadata (_refs/branches/<name>.json)
          par,      \* branch -> <<source location, version>>
          tag,      \* tag -> <<location, version>> | NoRef
          tagSnap,  \* ghost: tag -> what the tag read when it was created / last updated
          org,      \* ghost: row -> location that wrote it
          dep,      \* location -> locations it inherited from, transitively (base paths: data AND deletion files)
          nextRow, steps,
          last,     \* the step that produced this state: [op, subj, src, v]
          hist      \* ghost: the scenario (hidden by VIEW)
vars == <<cont, files, live, par, tag, tagSnap, org, dep, nextRow, steps, last, hist>>
view == <<cont, files, live, par, tag, tagSnap, org, dep, nextRow, steps, last>>

Man(x, v) == [own |-> x, dir |-> "_versions", id |-> v]
DataOf(r, o) == [own |-> o[r], dir |-> "data", id |-> IF r <= 3 THEN 0 ELSE r]
Exists(f, x, v) == Man(x, v) \in f
Versions(f, x) == {v \in DOMAIN cont[x] : Exists(f, x, v)}
HasLoc(f, x) == Versions(f, x) # {}
Latest(f, x) == Max(Versions(f, x))
Needs(c, o, x, v) == {Man(x, v)} \cup {DataOf(r, o) : r \in c[x][v]}
\* what a reader of (x, v) gets
ReadIn(c, f, o, x, v) == IF v \in DOMAIN c[x] /\ Needs(c, o, x, v) \subseteq f THEN c[x][v] ELSE ERR
Read(x, v) == ReadIn(cont, files, org, x, v)

\* path of a file (list of segments): used by the as-built directory removal
PathOf(f) == (IF f.own = MAIN THEN <<>> ELSE IF f.own \in Clones THEN f.own ELSE BranchDir(f.own)) \o <<f.dir>>

Init ==
  /\ cont = [x \in Locs |-> IF x = MAIN THEN (1 :> {1, 2, 3}) ELSE <<>>]
  /\ files = {Man(MAIN, 1), [own |-> MAIN, dir |-> "data", id |-> 0]}
  /\ live = {} /\ par = [n \in Names |-> NoRef]
  /\ tag = [t \in TagNames |-> NoRef] /\ tagSnap = [t \in TagNames |-> {}]
  /\ org = [r \in 1..MaxRow |-> MAIN]
  /\ dep = [x \in Locs |-> {}]
  /\ nextRow = 4 /\ steps = 0
  /\ last = [op |-> "init", subj |-> MAIN, src |-> MAIN, v |-> 1]
  /\ hist = <<[op |-> "init"]>>

Writable(x) == HasLoc(files, x) /\ (x \in Names => x \in live) /\ Read(x, Latest(files, x)) # ERR
Step(rec, l) == /\ steps' = steps + 1 /\ hist' = Append(hist, rec) /\ last' = l

(***************************************************************************)
(* Writes on one location                                                  *)
(***************************************************************************)
AppendRow(x) ==
  /\ steps < MaxSteps /\ "write" \in OpKinds /\ Writable(x)
  /\ LET lv == Latest(files, x) nv == lv + 1 r == nextRow IN
     /\ cont' = [cont EXCEPT ![x] = @ @@ (nv :> (cont[x][lv] \cup {r}))]
     /\ org' = [org EXCEPT ![r] = x]
     /\ files' = files \cup {Man(x, nv), [own |-> x, dir |-> "data", id |-> r]}
     /\ nextRow' = r + 1
     /\ Step([op |-> "append", on |-> x, row |-> r], [op |-> "append", subj |-> x, src |-> x, v |-> nv])
  /\ UNCHANGED <<live, par, tag, tagSnap, dep>>

DeleteRow(x) ==
  /\ steps < MaxSteps /\ "write" \in OpKinds /\ Writable(x)
  /\ LET lv == Latest(files, x) nv == lv + 1 IN
     \E r \in cont[x][lv] :
       /\ cont' = [cont EXCEPT ![x] = @ @@ (nv :> (cont[x][lv] \ {r}))]
       /\ files' = files \cup {Man(x, nv)}
       /\ Step([op |-> "delete", on |-> x, row |-> r], [op |-> "delete", subj |-> x, src |-> x, v |-> nv])
  /\ UNCHANGED <<live, par, tag, tagSnap, org, dep, nextRow>>

(***************************************************************************)
(* Branches                                                                *)
(***************************************************************************)
\* what create_branch / shallow_clone copy: the referenced (s, v); as built, (handle's location, v)
Copied(s, v, via) == IF "CloneReadsHandleLocation" \in Deviations THEN Read(via, v) ELSE Read(s, v)
Sources == {x \in {MAIN} \cup live : HasLoc(files, x)}

CreateBranch(n) ==
  /\ steps < MaxSteps /\ "branch" \in OpKinds /\ n \in Names \ live /\ ~HasLoc(files, n)
  /\ \E s \in Sources : \E v \in Versions(files, s) : \E via \in {MAIN, s} :
       /\ Read(s, v) # ERR /\ Copied(s, v, via) # ERR
       /\ cont' = [cont EXCEPT ![n] = (v :> Copied(s, v, via))]
       /\ files' = files \cup {Man(n, v)}
       /\ live' = live \cup {n} /\ par' = [par EXCEPT ![n] = <<s, v>>]
       /\ dep' = [dep EXCEPT ![n] = {s} \cup dep[s]]
       /\ Step([op |-> "create_branch", name |-> n, src |-> s, v |-> v],
               [op |-> "create_branch", subj |-> n, src |-> s, v |-> v])
  /\ UNCHANGED <<tag, tagSnap, org, nextRow>>

\* nobody else was created from n (a descendant may reference data and deletion files of n through base
\* paths), and no tag names a version of n: what deleting a branch does to its dependents is left open
NoDependents(n) ==
  /\ \A x \in Locs \ {n} : HasLoc(files, x) => n \notin dep[x]
  /\ \A t \in TagNames : IF tag[t] = NoRef THEN TRUE ELSE tag[t][1] # n

DeleteBranch(n) ==
  /\ steps < MaxSteps /\ "branch" \in OpKinds /\ n \in live /\ NoDependents(n)
  /\ LET removed ==
           IF "CharPrefixCleanupPath" \in Deviations
           THEN LET d == CleanupDirAsBuilt(n, live \ {n}) IN
                IF d = <<>> THEN {} ELSE {f \in files : f.own \in Names /\ IsSegPrefix(d, PathOf(f))}
           ELSE IF "SubBranchKeepsDir" \in Deviations
           THEN LET d == CleanupDirSegments(n, live \ {n}) IN
                IF d = <<>> THEN {} ELSE {f \in files : f.own \in Names /\ IsSegPrefix(d, PathOf(f))}
           ELSE {f \in files : f.own = n}                      \* exactly the branch's own storage
     IN /\ files' = files \ removed
        /\ cont' = [x \in Locs |-> IF x = n THEN <<>> ELSE cont[x]]
        /\ live' = live \ {n} /\ par' = [par EXCEPT ![n] = NoRef] /\ dep' = [dep EXCEPT ![n] = {}]
        /\ Step([op |-> "delete_branch", name |-> n], [op |-> "delete_branch", subj |-> n, src |-> n, v |-> 0])
  /\ UNCHANGED <<tag, tagSnap, org, nextRow>>

(***************************************************************************)
(* Tags                                                                    *)
(***************************************************************************)
SetTag(t, isNew) ==
  /\ steps < MaxSteps /\ "tag" \in OpKinds /\ (tag[t] = NoRef) = isNew
  /\ \E s \in Sources : \E v \in Versions(files, s) :
       /\ Read(s, v) # ERR /\ tag[t] # <<s, v>>
       /\ tag' = [tag EXCEPT ![t] = <<s, v>>] /\ tagSnap' = [tagSnap EXCEPT ![t] = Read(s, v)]
       /\ Step([op |-> IF isNew THEN "create_tag" ELSE "update_tag", tag |-> t, src |-> s, v |-> v],
               [op |-> "tag", subj |-> REFS, src |-> s, v |-> v])
  /\ UNCHANGED <<cont, files, live, par, org, dep, nextRow>>
DeleteTag(t) ==
  /\ steps < MaxSteps /\ "tag" \in OpKinds /\ tag[t] # NoRef
  /\ tag' = [tag EXCEPT ![t] = NoRef] /\ tagSnap' = [tagSnap EXCEPT ![t] = {}]
  /\ Step([op |-> "delete_tag", tag |-> t], [op |-> "tag", subj |-> REFS, src |-> MAIN, v |-> 0])
  /\ UNCHANGED <<cont, files, live, par, org, dep, nextRow>>

(***************************************************************************)
(* Shallow clones                                                          *)
(***************************************************************************)
ShallowClone(c) ==
  /\ steps < MaxSteps /\ "clone" \in OpKinds /\ c \in Clones /\ ~HasLoc(files, c)
  /\ \E s \in Sources : \E v \in Versions(files, s) : \E via \in {MAIN, s} :
       /\ Read(s, v) # ERR /\ Copied(s, v, via) # ERR
       /\ cont' = [cont EXCEPT ![c] = (v :> Copied(s, v, via))]
       /\ files' = files \cup {Man(c, v)}
       /\ dep' = [dep EXCEPT ![c] = {s} \cup dep[s]]
       /\ Step([op |-> "clone", clone |-> c, src |-> s, v |-> v], [op |-> "clone", subj |-> c, src |-> s, v |-> v])
  /\ UNCHANGED <<live, par, tag, tagSnap, org, nextRow>>

(***************************************************************************)
(* Cleanup of old versions of one location (policy: everything before the  *)
(* latest version; tagged versions are kept)                               *)
(***************************************************************************)
Cleanup(x) ==
  /\ steps < MaxSteps /\ "cleanup" \in OpKinds /\ Writable(x)
  /\ LET keepV == {Latest(files, x)} \cup {v \in Versions(files, x) : \E t \in TagNames : tag[t] = <<x, v>>}
         oldM == {Man(x, v) : v \in Versions(files, x) \ keepV}
         mine == UNION {Needs(cont, org, x, v) : v \in keepV}
         others == IF "CleanupIgnoresDependents" \in Deviations THEN {}
                   ELSE UNION {UNION {Needs(cont, org, y, v) : v \in Versions(files, y)} : y \in Locs \ {x}}
                        \* files that existing versions of the other locations reference
         oldD == {f \in files : f.own = x /\ f.dir = "data" /\ f \notin mine /\ f \notin others}
     IN /\ oldM \cup oldD # {}
        /\ files' = files \ (oldM \cup oldD)
        /\ Step([op |-> "cleanup", on |-> x], [op |-> "cleanup", subj |-> x, src |-> x, v |-> 0])
  /\ UNCHANGED <<cont, live, par, tag, tagSnap, org, dep, nextRow>>

Next ==
  \/ \E x \in Locs : AppendRow(x) \/ DeleteRow(x) \/ Cleanup(x)
  \/ \E n \in Names : CreateBranch(n) \/ DeleteBranch(n)
  \/ \E t \in TagNames : SetTag(t, TRUE) \/ SetTag(t, FALSE) \/ DeleteTag(t)
  \/ \E c \in Clones : ShallowClone(c)
Spec == Init /\ [][Next]_vars

(***************************************************************************)
(* Properties (names are the finding signatures)                           *)
(***************************************************************************)
TypeOK == /\ live \subseteq Names /\ steps \in 0..MaxSteps /\ nextRow \in 4..(MaxRow + 1)
          /\ \A f \in files : f.own \in Locs

\* a tag resolves to the exact (location, version) it was given, and reads what that version held
TagResolves == \A t \in TagNames : tag[t] # NoRef => Read(tag[t][1], tag[t][2]) = tagSnap[t]

\* a reference names (location, version): what create_branch / shallow_clone produce is that version
RefResolves == last.op \in {"create_branch", "clone"} => Read(last.subj, last.v) = Read(last.src, last.v)

\* no step changes what any existing version of ANOTHER location reads
BranchIsolation ==
  [][\A x \in Locs : x # last'.subj =>
        \A v \in Versions(files, x) : ReadIn(cont', files', org', x, v) = Read(x, v)]_vars
\* writes never change the history of their own location either
OwnHistoryKept ==
  [][last'.op \in {"append", "delete"} =>
        \A v \in Versions(files, last'.subj) : ReadIn(cont', files', org', last'.subj, v) = Read(last'.subj, v)]_vars
\* deleting a branch removes only files of that branch ...
\* (files that an earlier delete left behind -- possible only under a deviation -- belong to nobody)
Leftover(f) == f.own \in Names \ live
DeleteRemovesOnlyOwn == [][last'.op = "delete_branch" => \A f \in files \ files' : f.own = last'.subj \/ Leftover(f)]_vars
\* ... and all of them (dataset.rs documents and tests that the branch directory is gone afterwards)
DeleteRemovesAllOwn == [][last'.op = "delete_branch" => \A f \in files' : f.own # last'.subj]_vars
\* every step touches only storage of its subject
OnlyOwnStorageTouched ==
  [][\A f \in (files \ files') \cup (files' \ files) : f.own = last'.subj \/ Leftover(f)]_vars

\* The same properties for the as-built configurations: a violating step prints its history as a
\* witness scenario ("WIT"), which the check replays on the real code.
Wit == PrintT(<<"WIT", ToJson(hist')>>) /\ FALSE
RefResolvesW == RefResolves \/ (PrintT(<<"WIT", ToJson(hist)>>) /\ FALSE)
IsolatedStep(onlyBranches) ==
  \A x \in Locs : (x # last'.subj /\ (onlyBranches => last'.subj # MAIN)) =>
     \A v \in Versions(files, x) : ReadIn(cont', files', org', x, v) = Read(x, v)
BranchIsolationW == [][IsolatedStep(FALSE) \/ Wit]_vars
\* the literal reading of the property: the step is on a named branch or a shallow clone, not on the main table
BranchIsolationOnBranchW == [][IsolatedStep(TRUE) \/ Wit]_vars
DeleteRemovesOnlyOwnW == [][(last'.op = "delete_branch" => \A f \in files \ files' : f.own = last'.subj \/ Leftover(f)) \/ Wit]_vars
DeleteRemovesAllOwnW == [][(last'.op = "delete_branch" => \A f \in files' : f.own # last'.subj) \/ Wit]_vars

\* Scenario export: every maximal history is printed once (GEN configurations)
Done == steps = MaxSteps
GenPrint == Done => PrintT(<<"SCN", ToJson(hist)>>)
=============================================================================
