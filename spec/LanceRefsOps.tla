--------------------------- MODULE LanceRefsOps ---------------------------
(* Variable-free operators for property C09 (branches, tags, shallow clones).

   1. The DOCUMENTED name grammar (docs/src/format/table/branch_tag.md, "Branch
      Name" rules 1-7 and "Tag Name" rules 1-5), written token-wise.  A name is a
      sequence of tokens over Alphabet; the real string is the concatenation.
      Tokens are single characters plus the two reserved words of the grammar
      ("main", "lock") so that rule 6/7 and tag rule 4 are reachable with short
      sequences.  No two different token sequences concatenate to the same
      string (no single-letter token is a letter of "main"/"lock").

   2. Paths of the object tree: the directory of a branch (tree/<segments>),
      ownership of a directory, and the transcription of
      Branches::get_cleanup_path (rust/lance/src/dataset/refs.rs) as built,
      next to the intended "the branch's own directory".                     *)
EXTENDS Naturals, Integers, Sequences, FiniteSets, TLC, SequencesExt, FiniteSetsExt

(***************************************************************************)
(* 1. Name grammar                                                         *)
(***************************************************************************)
Alphabet == <<"a", "b", ".", "-", "_", "/", "@", "\\", "main", "lock">>
K == Len(Alphabet)
AlnumTok(t) == t \in {"a", "b", "c", "main", "lock"}      \* tokens made of alphanumeric characters only
SegTok(t)   == AlnumTok(t) \/ t \in {".", "-", "_"}       \* "alphanumeric characters, '.', '-', '_'"

HasPair(s, x, y) == \E i \in 1..(Len(s) - 1) : s[i] = x /\ s[i + 1] = y
EndsDotLock(s)   == Len(s) >= 2 /\ s[Len(s) - 1] = "." /\ s[Len(s)] = "lock"

\* branch_tag.md, "Branch Name"
ValidBranch(s) ==
  /\ Len(s) > 0                                            \* 1. cannot be empty
  /\ s[1] # "/" /\ s[Len(s)] # "/"                         \* 2. cannot start or end with /
  /\ ~HasPair(s, "/", "/")                                 \* 3. no consecutive //
  /\ ~HasPair(s, ".", ".")                                 \* 4. no ..
  /\ \A i \in 1..Len(s) : s[i] # "\\"                      \* 4. no backslash
  /\ \A i \in 1..Len(s) : s[i] = "/" \/ SegTok(s[i])       \* 5. segments: alphanumeric . - _
  /\ ~EndsDotLock(s)                                       \* 6. cannot end with .lock
  /\ s # <<"main">>                                        \* 7. cannot be named main

\* branch_tag.md, "Tag Name"
ValidTag(s) ==
  /\ Len(s) > 0                                            \* 1. cannot be empty
  /\ \A i \in 1..Len(s) : SegTok(s[i])                     \* 2. only alphanumeric . - _  (no /)
  /\ s[1] # "." /\ s[Len(s)] # "."                         \* 3. cannot start or end with .
  /\ ~EndsDotLock(s)                                       \* 4. cannot end with .lock
  /\ ~HasPair(s, ".", ".")                                 \* 5. no consecutive ..

\* position of a name in the length-then-lexicographic enumeration of all token sequences
RECURSIVE Pow(_, _)
Pow(b, e) == IF e = 0 THEN 1 ELSE b * Pow(b, e - 1)
RECURSIVE OffsetOfLen(_)
OffsetOfLen(n) == IF n = 0 THEN 0 ELSE OffsetOfLen(n - 1) + Pow(K, n - 1)
MaxNameLen == 8
PowTab == [e \in 0..MaxNameLen |-> Pow(K, e)]
OffTab == [n \in 0..(MaxNameLen + 1) |-> OffsetOfLen(n)]
TokPos == [t \in {Alphabet[i] : i \in 1..K} |-> CHOOSE i \in 1..K : Alphabet[i] = t]
RECURSIVE Digits(_, _)
Digits(s, i) == IF i > Len(s) THEN 0 ELSE (TokPos[s[i]] - 1) * PowTab[Len(s) - i] + Digits(s, i + 1)
NameIdx(s) == OffTab[Len(s)] + Digits(s, 1)
UniverseSize(maxlen) == OffTab[maxlen + 1]

(***************************************************************************)
(* 2. Paths                                                                *)
(***************************************************************************)
MAIN == <<"main">>
CloneIds == {"#c1", "#c2"}
IsCloneLoc(l) == Len(l) = 1 /\ l[1] \in CloneIds

\* segment (sequence of one-character tokens) -> the directory name on storage
SegStr(cs) == CASE cs = <<"a">> -> "a" [] cs = <<"b">> -> "b" [] cs = <<"c">> -> "c"
                [] cs = <<"a", "b">> -> "ab" [] cs = <<"b", "c">> -> "bc" [] cs = <<"a", "c">> -> "ac"
                [] cs = <<"a", "b", "c">> -> "abc" [] cs = <<>> -> ""
                [] OTHER -> "?"
SlashPos(s) == {i \in 1..Len(s) : s[i] = "/"}
\* "a/bc" -> <<"a", "bc">>
Segs(s) == LET cuts == SetToSortSeq(SlashPos(s) \cup {0, Len(s) + 1}, <)
           IN [k \in 1..(Len(cuts) - 1) |-> SegStr(SubSeq(s, cuts[k] + 1, cuts[k + 1] - 1))]
IsSegPrefix(p, q) == Len(p) <= Len(q) /\ SubSeq(q, 1, Len(p)) = p

\* intended: a branch owns exactly the directory tree/<segments of its name> (docs: "Branch Dataset Layout")
BranchDir(b) == <<"tree">> \o Segs(b)

\* Branches::get_cleanup_path as built: the longest common CHARACTER prefix with any remaining branch
\* name, cut back to the last '/', plus the next segment of the deleted name.  <<>> = "delete nothing".
CommonLen(x, y) == Max({k \in 0..Min({Len(x), Len(y)}) : \A i \in 1..k : x[i] = y[i]})
CleanupDirAsBuilt(b, remaining) ==
  LET longest == Max({0} \cup {CommonLen(b, c) : c \in remaining}) IN
  IF longest = Len(b) THEN <<>>
  ELSE LET used0 == SubSeq(b, 1, longest)
           sl == SlashPos(used0)
           used == IF sl = {} THEN used0 ELSE SubSeq(used0, 1, Max(sl) - 1)       \* rfind('/')
           rest0 == SubSeq(b, Len(used) + 1, Len(b))
           rest == IF Len(rest0) > 0 /\ rest0[1] = "/" THEN Tail(rest0) ELSE rest0    \* trim_start_matches('/')
           rs == SlashPos(rest)
           sub == IF rs = {} THEN rest ELSE SubSeq(rest, 1, Min(rs) - 1)         \* split('/').next()
       IN <<"tree">> \o (IF Len(used) = 0 THEN <<>> ELSE Segs(used)) \o <<SegStr(sub)>>
\* Branches::get_cleanup_path after "fix: deleting a branch compared branch names character by character":
\* names are compared segment by segment; the first directory on the way to the branch that no remaining
\* branch uses is removed; still "delete nothing" when the branch's path is a prefix of another branch's.
CommonSegs(p, q) == Max({k \in 0..Min({Len(p), Len(q)}) : \A i \in 1..k : p[i] = q[i]})
CleanupDirSegments(b, remaining) ==
  LET sb == Segs(b)
      longest == Max({0} \cup {CommonSegs(sb, Segs(c)) : c \in remaining}) IN
  IF longest = Len(sb) THEN <<>> ELSE <<"tree">> \o SubSeq(sb, 1, longest + 1)
\* intended: the branch's own directory, unless another branch lives below it (then only the
\* standard sub-directories of the branch itself go; expressed on files by ownership, see LanceRefs)
CleanupDirIntended(b) == BranchDir(b)

\* owner of a directory of the object tree (a list of path segments)
StdDirs == {"_versions", "_transactions", "data", "_deletions", "_indices", "_refs"}
REFS == <<"_refs">>
OwnerOf(dir) ==
  IF Len(dir) = 0 THEN MAIN
  ELSE IF dir[1] \in CloneIds THEN <<dir[1]>>
  ELSE IF dir[1] = "_refs" THEN REFS
  ELSE IF dir[1] = "tree"
       THEN LET std == {i \in 2..Len(dir) : dir[i] \in StdDirs}
            IN IF std = {} THEN SubSeq(dir, 2, Len(dir)) ELSE SubSeq(dir, 2, Min(std) - 1)
  ELSE MAIN
\* the owner of a location, in the same form
OwnerKey(l) == IF l = MAIN \/ IsCloneLoc(l) THEN l ELSE Segs(l)
=============================================================================
