---------------------------- MODULE LanceStore ----------------------------
(* L1 storage layer of the Lance commit protocol: the object store below `_versions`, the external
   manifest store, the lease of the lock-based commit handler and the fault budget.

   obj    : path -> content.  A path is a triple <<class, version, id>>:
              <<"final",    v, 0>>   _versions/<v>.manifest (V1) or the inverted V2 name
              <<"staging",  v, c>>   _versions/<v>.manifest-<uuid>; c = the content written there
              <<"detached", c, 0>>   _versions/d<id>.manifest; c = the content written there
            content is an opaque positive integer token (one per manifest ever built).
            "absent" is simply "not in DOMAIN obj".
   ext    : version -> path   (external manifest store, put_if_not_exists / put_if_exists)
   lease  : 0 = free, else the actor holding the commit lock
   budget : remaining faults of each class

   Every primitive is one `object_store::ObjectStore` / `ExternalManifestStore` / `CommitLock`
   call.  A call is parameterised by a fault f:
      "ok"    performed, caller sees the true outcome
      "fail"  FailNoEffect: nothing happens, caller sees an error
      "lost"  LostResponse: the effect is applied, caller sees an error
   For each primitive there is an outcome operator (what the caller sees, as recorded by the gate
   store of the harness) and an effect operator (the new store).                                  *)
EXTENDS Naturals, Integers, Sequences, FiniteSets, TLC

VARIABLES obj, ext, lease, budget
storeVars == <<obj, ext, lease, budget>>

Faults == {"ok", "fail", "lost"}

FinalP(v)       == <<"final", v, 0>>
StagingP(v, c)  == <<"staging", v, c>>
DetachedP(c)    == <<"detached", c, 0>>
IsFinal(p)      == p[1] = "final"
IsStaging(p)    == p[1] = "staging"
IsDetached(p)   == p[1] = "detached"

Has(p)     == p \in DOMAIN obj
With(o, p, c) == (p :> c) @@ o
Without(o, p) == [q \in (DOMAIN o) \ {p} |-> o[q]]

\* ---- fault budget ---------------------------------------------------------------------------
CanFault(f) == IF f = "ok" THEN TRUE ELSE budget[f] > 0
Spend(f)    == IF f = "ok" THEN budget ELSE [budget EXCEPT ![f] = @ - 1]

\* ---- PUT (overwrite) ------------------------------------------------------------------------
PutOut(f)        == IF f = "fail" THEN "fail" ELSE f
PutEff(p, c, f)  == IF f = "fail" THEN obj ELSE With(obj, p, c)
\* ---- PUT with PutMode::Create ---------------------------------------------------------------
PutIfAbsentOut(p, f)    == IF f = "fail" THEN "fail" ELSE IF Has(p) THEN "exists" ELSE f
PutIfAbsentEff(p, c, f) == IF f = "fail" \/ Has(p) THEN obj ELSE With(obj, p, c)
\* ---- rename_if_not_exists(from, to) (atomic) ------------------------------------------------
RenameOut(from, to, f) == IF f = "fail" THEN "fail" ELSE IF ~Has(from) THEN "notfound"
                          ELSE IF Has(to) THEN "exists" ELSE f
RenameEff(from, to, f) == IF f = "fail" \/ ~Has(from) \/ Has(to) THEN obj
                          ELSE Without(With(obj, to, obj[from]), from)
\* ---- copy(from, to): overwrites the destination ----------------------------------------------
CopyOut(from, f)     == IF f = "fail" THEN "fail" ELSE IF ~Has(from) THEN "notfound" ELSE f
CopyEff(from, to, f) == IF f = "fail" \/ ~Has(from) THEN obj ELSE With(obj, to, obj[from])
\* ---- delete ---------------------------------------------------------------------------------
DeleteOut(p, f) == IF f = "fail" THEN "fail" ELSE IF ~Has(p) THEN "notfound" ELSE f
DeleteEff(p, f) == IF f = "fail" THEN obj ELSE Without(obj, p)
\* ---- head (read only: "fail" is the only fault) -----------------------------------------------
HeadOut(p, f)   == IF f # "ok" THEN "fail" ELSE IF Has(p) THEN "ok" ELSE "notfound"

\* ---- listing of _versions ---------------------------------------------------------------------
Attached     == {p[2] : p \in {q \in DOMAIN obj : IsFinal(q)}}
HasDetached  == \E p \in DOMAIN obj : IsDetached(p)
Max(S)       == CHOOSE x \in S : \A y \in S : y <= x
LatestListed == IF Attached = {} THEN 0 ELSE Max(Attached)

\* ---- external manifest store ------------------------------------------------------------------
ExtHas(v)      == v \in DOMAIN ext
ExtLatest      == IF DOMAIN ext = {} THEN 0 ELSE Max(DOMAIN ext)
ExtPutNewOut(v, f)    == IF f = "fail" THEN "fail" ELSE IF ExtHas(v) THEN "exists" ELSE f
ExtPutNewEff(v, p, f) == IF f = "fail" \/ ExtHas(v) THEN ext ELSE With(ext, v, p)
ExtFlipOut(v, f)      == IF f = "fail" THEN "fail" ELSE IF ~ExtHas(v) THEN "notfound" ELSE f
ExtFlipEff(v, p, f)   == IF f = "fail" \/ ~ExtHas(v) THEN ext ELSE With(ext, v, p)

StoreTypeOK ==
  /\ \A p \in DOMAIN obj : p[1] \in {"final", "staging", "detached"} /\ obj[p] \in Nat \ {0}
  /\ \A v \in DOMAIN ext : v \in Nat \ {0} /\ ext[v][1] \in {"final", "staging"}
  /\ lease \in Nat
  /\ \A k \in DOMAIN budget : budget[k] \in Nat
=============================================================================
