----------------------------- MODULE LanceTable -----------------------------
(* The logical table and its transactions (level L2 of the suite).

   One table with a unique key column `id` (the logical row identity) and a
   nullable value column `val`.  A version is a list of fragments; a fragment
   is a list of physical rows plus a deletion set.  Writers hold *handles*
   pinned at a read version; an operation issued through a stale handle is a
   transaction that was started at that read version and commits now, so the
   interleavings of concurrent transactions are exactly the assignments of
   read versions and the commit order.

   The commit step transcribes lance's conflict resolution
   (rust/lance/src/io/commit/conflict_resolver.rs: check_txn per operation
   pair, row-level rebase of delete/update via affected rows and deletion
   vectors, finish_delete_update) and manifest construction
   (Transaction::build_manifest: fragment ids from max_fragment_id+1, row ids
   from next_row_id, created/updated version sequences, restore).

   Ghost state (not in the implementation) gives the properties an oracle:
     serial  - the table obtained by applying the committed transactions'
               logical effects one at a time in version order       (C03)
     issued  - every stable row id ever assigned in any version     (C07, C18)
     truth   - per logical row: version of creation / last update    (C17)
   Deviations name behaviours of the code as built that differ from the
   intended design (see DESIGN.md section 7).                               *)
EXTENDS Naturals, Integers, Sequences, FiniteSets, TLC, SequencesExt, FiniteSetsExt, Functions, Json

CONSTANTS Ids,          \* key values that scenarios may use
          Vals,         \* non-null values of column val
          Handles,      \* writer handle names
          MaxVersions,  \* bound on the length of the history
          MaxOps,       \* bound on the number of operations
          Stable,       \* BOOLEAN: stable row ids enabled
          OpKinds,      \* subset of {"append","delete","update","upsert","compact","overwrite","restore","checkout"}
          MaxBatch,     \* rows per appended / overwritten batch (1 or 2)
          Deviations    \* subset of {"RestoreRewindsRowIds", "UpdateCreatedAtFromRowIdBits", "IndexIgnoresColumnRewrite"}

NULL == -1
AllVals == Vals \cup {NULL}

(***************************************************************************)
(* Rows, fragments, versions                                               *)
(***************************************************************************)
Row(id, val, rid, cre, upd) == [id |-> id, val |-> val, rid |-> rid, cre |-> cre, upd |-> upd]
\* fragment: [id, rows (physical, offset i-1 for index i), del (set of 0-based offsets)]
LiveOffs(f) == {o \in 0..(Len(f.rows)-1) : o \notin f.del}
LiveRows(f) == [i \in 1..Cardinality(LiveOffs(f)) |->
                  f.rows[SetToSortSeq(LiveOffs(f), <)[i] + 1]]
RECURSIVE ConcatAll(_)
ConcatAll(ss) == IF ss = <<>> THEN <<>> ELSE Head(ss) \o ConcatAll(Tail(ss))
Scan(v) == ConcatAll([i \in 1..Len(v.frags) |-> LiveRows(v.frags[i])])
RowSet(v) == {Scan(v)[i] : i \in 1..Len(Scan(v))}
Logical(v) == {[id |-> r.id, val |-> r.val] : r \in RowSet(v)}       \* what a user reads
FragIds(v) == {v.frags[i].id : i \in 1..Len(v.frags)}
FragById(v, fid) == CHOOSE f \in {v.frags[i] : i \in 1..Len(v.frags)} : f.id = fid
Addr(f, o) == <<f.id, o>>

(***************************************************************************)
(* Transactions as lance records them                                      *)
(***************************************************************************)
NoTxn == [kind |-> "none", upd |-> {}, rem |-> {}, affected |-> {}, hasAffected |-> FALSE,
          old |-> {}, newRows |-> <<>>, delIds |-> {}, restoreTo |-> 0, filesChanged |-> FALSE, newIx |-> [has |-> FALSE, frags |-> {}, snap |-> <<>>]]
Mod(t) == t.upd \cup t.rem \cup t.old

\* check_txn: outcome of committing `self` after `other` has committed
Check(self, other) ==
  LET sk == self.kind
      ok == other.kind
  IN
  CASE ok \in {"none", "reserve"} -> "ok"
    [] sk = "restore" -> "ok"
    [] sk = "overwrite" -> "ok"
    [] ok \in {"overwrite", "restore"} -> "incompatible"
    [] sk = "append" -> "ok"
    [] sk = "reserve" -> "ok"
    [] sk \in {"delete", "update"} ->
         (CASE ok = "append" -> "ok"
            [] ok = "rewrite" -> IF other.old \cap Mod(self) # {} THEN "retryable" ELSE "ok"
            [] ok \in {"delete", "update"} ->
                 IF Mod(other) \cap Mod(self) = {} THEN "ok"
                 ELSE IF ~self.hasAffected THEN "retryable"
                 ELSE IF other.filesChanged THEN "retryable"     \* data files, not just deletion files, were modified
                 ELSE IF other.rem \cap Mod(self) # {} THEN "retryable"
                 ELSE "rebase"           \* decided in Finish by the deletion vectors
            [] OTHER -> "ok")
    [] sk = "index" -> IF ok = "rewrite" /\ other.old \cap self.newIx.frags # {} THEN "retryable"
                       \* a concurrent in-place rewrite of the indexed column in a fragment the index covers
                       \* (deviation: the code before the repair let the index commit)
                       ELSE IF ok = "update" /\ other.filesChanged /\ other.upd \cap self.newIx.frags # {}
                               /\ "IndexIgnoresColumnRewrite" \notin Deviations THEN "retryable"
                       ELSE "ok"
    [] sk = "rewrite" ->
         (CASE ok = "append" -> "ok"
            [] ok = "index" -> IF other.newIx.frags \cap self.old # {} THEN "retryable" ELSE "ok"
            [] ok \in {"delete", "update"} -> IF Mod(other) \cap self.old # {} THEN "retryable" ELSE "ok"
            [] ok = "rewrite" -> IF other.old \cap self.old # {} THEN "retryable" ELSE "ok"
            [] OTHER -> "ok")
    [] OTHER -> "ok"

(***************************************************************************)
(* Building a transaction at the read version                              *)
(***************************************************************************)
Matched(f, P(_)) == {o \in LiveOffs(f) : P(f.rows[o+1])}

\* delete / update / upsert all delete a set of rows; `sel` picks them by row
DelPart(v, Sel(_)) ==
  LET fs == {v.frags[i] : i \in 1..Len(v.frags)}
      hit == {f \in fs : Matched(f, Sel) # {}}
      whole == {f \in hit : Matched(f, Sel) = LiveOffs(f)}
  IN [upd |-> {f.id : f \in hit \ whole},
      rem |-> {f.id : f \in whole},
      affected |-> UNION {{Addr(f, o) : o \in Matched(f, Sel)} : f \in hit}]

(***************************************************************************)
(* State                                                                   *)
(***************************************************************************)
VARIABLES vers,     \* sequence of versions
          hv,       \* handle -> version it is pinned at (0 = not opened)
          issued,   \* ghost: stable row ids ever assigned
          truth,    \* ghost: id -> [cre, upd] for rows of the serial table
          serial,   \* ghost: logical table by serial replay
          lastRes,  \* result class of the last operation
          ix,       \* per version: the scalar index on column val ([has, frags (fragment bitmap), snap (key -> indexed value)])
          reused,   \* ghost: TRUE once a stable row id was handed out a second time
          nops,     \* number of operations so far
          hist      \* ghost: the operation history (scenario), hidden by VIEW
vars == <<vers, hv, ix, issued, truth, serial, lastRes, reused, nops, hist>>
view == <<vers, hv, ix, issued, truth, serial, lastRes, reused, nops>>
\* scenario generation keeps the last step apart: operations that fail (conflict) lead to the same state and
\* would otherwise be represented by a single arbitrary history
genview == <<vers, hv, ix, issued, truth, serial, lastRes, reused, nops, hist[Len(hist)]>>

Latest == vers[Len(vers)]
NoIx == [has |-> FALSE, frags |-> {}, snap |-> <<>>]
LatestIx == ix[Len(ix)]
NV == Len(vers)

InitRows == {<<>>} \cup {<<[id |-> 1, val |-> 1]>>, <<[id |-> 1, val |-> 1], [id |-> 2, val |-> NULL]>>}

\* new fragment from logical rows; stable row ids are assigned from nextRid
MkFrag(fid, lrows, nextRid, ver) ==
  [id |-> fid,
   rows |-> [i \in 1..Len(lrows) |->
               Row(lrows[i].id, lrows[i].val,
                   IF Stable THEN nextRid + i - 1 ELSE -1, IF Stable THEN ver ELSE -1, IF Stable THEN ver ELSE -1)],
   del |-> {}]

Init ==
  /\ \E two \in BOOLEAN :
       LET f0 == MkFrag(0, <<[id |-> 1, val |-> 1], [id |-> 2, val |-> NULL]>>, 0, 1)
           f1 == MkFrag(1, <<[id |-> 3, val |-> 2]>>, 2, 2)
           v1 == [frags |-> <<f0>>, maxFrag |-> 0, nextRid |-> IF Stable THEN 2 ELSE -1,
                  txn |-> [NoTxn EXCEPT !.kind = "overwrite"]]
           v2 == [frags |-> <<f0, f1>>, maxFrag |-> 1, nextRid |-> IF Stable THEN 3 ELSE -1,
                  txn |-> [NoTxn EXCEPT !.kind = "append"]]
       IN /\ vers = IF two THEN <<v1, v2>> ELSE <<v1>>
          /\ serial = IF two THEN Logical(v2) ELSE Logical(v1)
          /\ issued = IF Stable THEN (IF two THEN 0..2 ELSE 0..1) ELSE {}
          /\ truth = IF two THEN (1 :> [cre |-> 1, upd |-> 1] @@ 2 :> [cre |-> 1, upd |-> 1] @@ 3 :> [cre |-> 2, upd |-> 2])
                     ELSE (1 :> [cre |-> 1, upd |-> 1] @@ 2 :> [cre |-> 1, upd |-> 1])
          /\ hist = <<[op |-> "init", two |-> two]>>
          /\ ix = IF two THEN <<NoIx, NoIx>> ELSE <<NoIx>>
  /\ hv = [h \in Handles |-> Len(vers)]     \* every writer has the table open at the latest version
  /\ lastRes = "ok"
  /\ reused = FALSE
  /\ nops = 0

(***************************************************************************)
(* Commit machinery                                                        *)
(***************************************************************************)
\* Outcome of committing txn t (built at read version rv) on top of the current history
Outcome(t, rv) ==
  LET cs == {Check(t, vers[k].txn) : k \in (rv+1)..NV}
  IN IF "incompatible" \in cs THEN "incompatible"
     ELSE IF "retryable" \in cs THEN "retryable"
     ELSE IF "rebase" \in cs
          THEN \* finish_delete_update: rows deleted meanwhile must not intersect the affected rows
               (IF \E a \in t.affected :
                     /\ a[1] \in FragIds(Latest)
                     /\ a[2] \in FragById(Latest, a[1]).del
                   THEN "retryable" ELSE "ok")
     ELSE "ok"

\* apply the deletion part of a (rebased) transaction to the latest version's fragments
ApplyDel(frags, t) ==
  LET keep == SelectSeq(frags, LAMBDA f : f.id \notin t.rem)
  IN [i \in 1..Len(keep) |->
        LET f == keep[i]
            offs == {a[2] : a \in {x \in t.affected : x[1] = f.id}}
        IN IF offs = {} THEN f ELSE [f EXCEPT !.del = @ \cup offs]]

\* A fragment all of whose rows end up deleted by the rebase is dropped as well
DropEmpty(frags) == SelectSeq(frags, LAMBDA f : LiveOffs(f) # {})
\* ... and the transaction that is recorded for the new version is the *rebased* one: such a
\* fragment is moved to the removed ids (finish_delete_update), which later committers check against
Rebased(t, L) ==
  LET after == DropEmpty(ApplyDel(L.frags, t))
      gone == FragIds(L) \ {after[i].id : i \in 1..Len(after)}
  IN [t EXCEPT !.rem = gone]

Push(v, res, step) ==
  /\ vers' = Append(vers, v)
  /\ ix' = Append(ix, CASE v.txn.kind \in {"overwrite"} -> NoIx
                        [] v.txn.kind = "restore" -> ix[v.txn.restoreTo]
                        [] v.txn.kind = "index" -> v.txn.newIx
                        [] OTHER -> LatestIx)
  /\ lastRes' = res
  /\ hist' = Append(hist, step)

Fail(res, step) ==
  /\ lastRes' = res
  /\ hist' = Append(hist, [step EXCEPT !.res = res])
  /\ UNCHANGED <<vers, hv, ix, issued, truth, serial, reused>>

(***************************************************************************)
(* Operations                                                              *)
(***************************************************************************)
CanWrite(h) == hv[h] > 0 /\ NV < MaxVersions /\ nops < MaxOps

Checkout(h, v) ==
  /\ "checkout" \in OpKinds /\ nops < MaxOps
  /\ v \in 1..NV /\ hv[h] # v
  /\ hv' = [hv EXCEPT ![h] = v]
  /\ lastRes' = "ok"
  /\ hist' = Append(hist, [op |-> "checkout", h |-> h, v |-> v, res |-> "ok"])
  /\ UNCHANGED <<vers, ix, issued, truth, serial, reused>>
  /\ nops' = nops + 1

NewVer == NV + 1

DoAppend(h, lrows) ==
  /\ "append" \in OpKinds /\ CanWrite(h)
  /\ \A i \in 1..Len(lrows) : lrows[i].id \notin {r.id : r \in serial}   \* scenarios keep ids unique
  /\ LET rv == hv[h]
         t == [NoTxn EXCEPT !.kind = "append", !.newRows = lrows]
         res == Outcome(t, rv)
         step == [op |-> "append", h |-> h, rows |-> lrows, res |-> res]
     IN IF res # "ok" THEN Fail(res, step)
        ELSE LET L == Latest
                 f == MkFrag(L.maxFrag + 1, lrows, L.nextRid, NewVer)
                 v == [frags |-> L.frags \o <<f>>, maxFrag |-> L.maxFrag + 1,
                       nextRid |-> IF Stable THEN L.nextRid + Len(lrows) ELSE -1, txn |-> t]
             IN /\ Push(v, "ok", step)
                /\ hv' = [hv EXCEPT ![h] = NewVer]
                /\ serial' = serial \cup {lrows[i] : i \in 1..Len(lrows)}
                /\ issued' = IF Stable THEN issued \cup (L.nextRid..(L.nextRid + Len(lrows) - 1)) ELSE issued
                /\ reused' = (reused \/ (Stable /\ (L.nextRid..(L.nextRid + Len(lrows) - 1)) \cap issued # {}))
                /\ truth' = [i \in DOMAIN truth \cup {lrows[j].id : j \in 1..Len(lrows)} |->
                               IF i \in {lrows[j].id : j \in 1..Len(lrows)}
                               THEN [cre |-> NewVer, upd |-> NewVer] ELSE truth[i]]
  /\ nops' = nops + 1

\* delete where id \in S
DoDelete(h, S) ==
  /\ "delete" \in OpKinds /\ CanWrite(h)
  /\ LET rv == hv[h]
         R == vers[rv]
         dp == DelPart(R, LAMBDA r : r.id \in S)
         t == [NoTxn EXCEPT !.kind = "delete", !.upd = dp.upd, !.rem = dp.rem, !.affected = dp.affected,
                            !.hasAffected = (dp.upd # {}), !.delIds = {r.id : r \in {x \in RowSet(R) : x.id \in S}}]
         res == IF dp.affected = {} THEN "noop" ELSE Outcome(t, rv)
         step == [op |-> "delete", h |-> h, ids |-> S, res |-> res]
     IN IF res = "noop" THEN /\ lastRes' = "ok" /\ hist' = Append(hist, [step EXCEPT !.res = "ok"])
                             /\ UNCHANGED <<vers, hv, ix, issued, truth, serial, reused>>
        ELSE IF res # "ok" THEN Fail(res, step)
        ELSE LET L == Latest
                 v == [frags |-> DropEmpty(ApplyDel(L.frags, t)), maxFrag |-> L.maxFrag, nextRid |-> L.nextRid, txn |-> Rebased(t, L)]
             IN /\ Push(v, "ok", step)
                /\ hv' = [hv EXCEPT ![h] = NewVer]
                /\ serial' = {r \in serial : r.id \notin t.delIds}
                /\ UNCHANGED <<issued, truth, reused>>
  /\ nops' = nops + 1

\* update set val = nv where id \in S   (RewriteRows: delete + re-insert the new images)
DoUpdate(h, S, nv) ==
  /\ "update" \in OpKinds /\ CanWrite(h)
  /\ LET rv == hv[h]
         R == vers[rv]
         dp == DelPart(R, LAMBDA r : r.id \in S)
         olds == SelectSeq(Scan(R), LAMBDA r : r.id \in S)
         t == [NoTxn EXCEPT !.kind = "update", !.upd = dp.upd, !.rem = dp.rem, !.affected = dp.affected,
                            !.hasAffected = (dp.upd # {}), !.delIds = {olds[i].id : i \in 1..Len(olds)},
                            !.newRows = [i \in 1..Len(olds) |-> [id |-> olds[i].id, val |-> nv]]]
         res == IF olds = <<>> THEN "noop" ELSE Outcome(t, rv)
         step == [op |-> "update", h |-> h, ids |-> S, val |-> nv, res |-> res]
     IN IF res = "noop" THEN /\ lastRes' = "ok" /\ hist' = Append(hist, [step EXCEPT !.res = "ok"])
                             /\ UNCHANGED <<vers, hv, ix, issued, truth, serial, reused>>
        ELSE IF res # "ok" THEN Fail(res, step)
        ELSE LET L == Latest
                 \* updated rows keep their stable row id and creation version
                 nf == [id |-> L.maxFrag + 1,
                        rows |-> [i \in 1..Len(olds) |->
                                    Row(olds[i].id, nv, olds[i].rid,
                                        IF "UpdateCreatedAtFromRowIdBits" \in Deviations /\ Stable
                                        THEN 1 ELSE olds[i].cre,
                                        IF Stable THEN NewVer ELSE -1)],
                        del |-> {}]
                 v == [frags |-> DropEmpty(ApplyDel(L.frags, t)) \o <<nf>>, maxFrag |-> L.maxFrag + 1,
                       nextRid |-> L.nextRid, txn |-> Rebased(t, L)]
             IN /\ Push(v, "ok", step)
                /\ hv' = [hv EXCEPT ![h] = NewVer]
                /\ serial' = {r \in serial : r.id \notin t.delIds}
                               \cup {[id |-> i, val |-> nv] : i \in t.delIds \cap {r.id : r \in serial}}
                /\ truth' = [i \in DOMAIN truth |-> IF i \in t.delIds THEN [truth[i] EXCEPT !.upd = NewVer] ELSE truth[i]]
                /\ UNCHANGED <<issued, reused>>
  /\ nops' = nops + 1

\* upsert (merge_insert, when matched update all, when not matched insert all) of one source row
DoUpsert(h, sid, sval) ==
  /\ "upsert" \in OpKinds /\ CanWrite(h)
  \* lance does not enforce key uniqueness: an upsert that saw no match at its read version is an
  \* insert and may race with another insert of the same key.  Scenarios keep keys unique.
  /\ (sid \notin {r.id : r \in RowSet(vers[hv[h]])}) => (sid \notin {r.id : r \in serial})
  /\ LET rv == hv[h]
         R == vers[rv]
         dp == DelPart(R, LAMBDA r : r.id = sid)
         olds == SelectSeq(Scan(R), LAMBDA r : r.id = sid)
         t == [NoTxn EXCEPT !.kind = "update", !.upd = dp.upd, !.rem = dp.rem, !.affected = dp.affected,
                            !.hasAffected = (dp.upd # {}), !.delIds = IF olds = <<>> THEN {} ELSE {sid},
                            !.newRows = <<[id |-> sid, val |-> sval]>>]
         res == Outcome(t, rv)
         step == [op |-> "upsert", h |-> h, id |-> sid, val |-> sval, res |-> res]
     IN IF res # "ok" THEN Fail(res, step)
        ELSE LET L == Latest
                 isUpd == olds # <<>>
                 nf == [id |-> L.maxFrag + 1,
                        rows |-> <<Row(sid, sval,
                                       IF ~Stable THEN -1 ELSE IF isUpd THEN olds[1].rid ELSE L.nextRid,
                                       IF ~Stable THEN -1 ELSE IF isUpd THEN olds[1].cre ELSE NewVer,
                                       IF Stable THEN NewVer ELSE -1)>>,
                        del |-> {}]
                 v == [frags |-> DropEmpty(ApplyDel(L.frags, t)) \o <<nf>>, maxFrag |-> L.maxFrag + 1,
                       nextRid |-> IF Stable /\ ~isUpd THEN L.nextRid + 1 ELSE L.nextRid, txn |-> Rebased(t, L)]
             IN /\ Push(v, "ok", step)
                /\ hv' = [hv EXCEPT ![h] = NewVer]
                \* the logical effect was computed at the read version: an insert stays an insert
                /\ serial' = {r \in serial : ~(isUpd /\ r.id = sid)} \cup {[id |-> sid, val |-> sval]}
                /\ issued' = IF Stable /\ ~isUpd THEN issued \cup {L.nextRid} ELSE issued
                /\ reused' = (reused \/ (Stable /\ ~isUpd /\ L.nextRid \in issued))
                /\ truth' = IF isUpd /\ sid \in DOMAIN truth THEN [truth EXCEPT ![sid].upd = NewVer]
                            ELSE [i \in DOMAIN truth \cup {sid} |-> IF i = sid THEN [cre |-> NewVer, upd |-> NewVer] ELSE truth[i]]
  /\ nops' = nops + 1

\* in-place column rewrite (merge_insert with a source that has only some of the columns: UpdateMode::RewriteColumns):
\* rows stay where they are, the fragment gets a new data file for the rewritten column
DoColUpdate(h, S, nv) ==
  /\ "colupdate" \in OpKinds /\ CanWrite(h)
  /\ LET rv == hv[h]
         R == vers[rv]
         hit == {R.frags[i].id : i \in {j \in 1..Len(R.frags) : \E o \in LiveOffs(R.frags[j]) : R.frags[j].rows[o+1].id \in S}}
         ids == {r.id : r \in {x \in RowSet(R) : x.id \in S}}
         t == [NoTxn EXCEPT !.kind = "update", !.upd = hit, !.hasAffected = FALSE, !.filesChanged = TRUE, !.delIds = ids]
         res == IF ids = {} THEN "noop" ELSE Outcome(t, rv)
         step == [op |-> "colupdate", h |-> h, ids |-> S, val |-> nv, res |-> res]
     IN IF res = "noop" THEN /\ lastRes' = "ok" /\ hist' = Append(hist, [step EXCEPT !.res = "ok"])
                             /\ UNCHANGED <<vers, hv, ix, issued, truth, serial, reused>>
        ELSE IF res # "ok" THEN Fail(res, step)
        ELSE LET L == Latest
                 nfr == [i \in 1..Len(L.frags) |->
                           [L.frags[i] EXCEPT !.rows = [k \in 1..Len(@) |->
                               IF @[k].id \in ids /\ (k-1) \notin L.frags[i].del
                               THEN [@[k] EXCEPT !.val = nv, !.upd = IF Stable THEN NewVer ELSE -1] ELSE @[k]]]]
                 v == [frags |-> nfr, maxFrag |-> L.maxFrag, nextRid |-> L.nextRid, txn |-> t]
             IN /\ vers' = Append(vers, v)
                \* the rewritten column is the indexed one: the touched fragments leave the index's bitmap
                /\ ix' = Append(ix, IF LatestIx.has THEN [LatestIx EXCEPT !.frags = @ \ hit] ELSE LatestIx)
                /\ lastRes' = "ok" /\ hist' = Append(hist, step)
                /\ hv' = [hv EXCEPT ![h] = NewVer]
                /\ serial' = {r \in serial : r.id \notin ids} \cup {[id |-> i, val |-> nv] : i \in ids \cap {r.id : r \in serial}}
                /\ truth' = [i \in DOMAIN truth |-> IF i \in ids THEN [truth[i] EXCEPT !.upd = NewVer] ELSE truth[i]]
                /\ UNCHANGED <<issued, reused>>
  /\ nops' = nops + 1

\* compaction of all fragments into one (materialising deletions); planned at the read version
DoCompact(h) ==
  /\ "compact" \in OpKinds /\ CanWrite(h) /\ NV + 1 < MaxVersions
  \* the planner never mixes indexed and unindexed fragments in one rewrite group
  /\ LET fi == FragIds(vers[hv[h]]) IN ~ix[hv[h]].has \/ fi \subseteq ix[hv[h]].frags \/ fi \cap ix[hv[h]].frags = {}
  /\ LET rv == hv[h]
         R == vers[rv]
         t == [NoTxn EXCEPT !.kind = "rewrite", !.old = FragIds(R)]
         res == IF Len(R.frags) < 2 /\ (\A i \in 1..Len(R.frags) : R.frags[i].del = {}) THEN "noop" ELSE Outcome(t, rv)
         step == [op |-> "compact", h |-> h, res |-> res]
     IN IF res = "noop" THEN /\ lastRes' = "ok" /\ hist' = Append(hist, [step EXCEPT !.res = "ok"])
                             /\ UNCHANGED <<vers, hv, ix, issued, truth, serial, reused>>
        ELSE IF res # "ok" THEN Fail(res, step)
        ELSE LET L == Latest
                 rows == Scan(R)
                 \* the implementation first reserves the new fragment id in its own commit
                 vr == [L EXCEPT !.maxFrag = L.maxFrag + 1, !.txn = [NoTxn EXCEPT !.kind = "reserve"]]
                 nf == [id |-> L.maxFrag + 1, rows |-> rows, del |-> {}]
                 keep == SelectSeq(L.frags, LAMBDA f : f.id \notin t.old)
                 v == [frags |-> <<nf>> \o keep, maxFrag |-> L.maxFrag + 1, nextRid |-> L.nextRid, txn |-> t]
                 covered == LatestIx.has /\ t.old \subseteq LatestIx.frags
                 ixn == IF ~LatestIx.has THEN LatestIx
                        ELSE [LatestIx EXCEPT !.frags = (@ \ t.old) \cup (IF covered THEN {L.maxFrag + 1} ELSE {})]
             IN /\ vers' = vers \o <<vr, v>>
                /\ ix' = ix \o <<LatestIx, ixn>>
                /\ lastRes' = "ok"
                /\ hist' = Append(hist, step)
                /\ hv' = [hv EXCEPT ![h] = NV + 2]
                /\ UNCHANGED <<issued, truth, serial, reused>>
  /\ nops' = nops + 1

DoOverwrite(h, lrows) ==
  /\ "overwrite" \in OpKinds /\ CanWrite(h)
  /\ LET t == [NoTxn EXCEPT !.kind = "overwrite", !.newRows = lrows]
         L == Latest
         f == MkFrag(0, lrows, L.nextRid, NewVer)
         v == [frags |-> <<f>>, maxFrag |-> 0,
               nextRid |-> IF Stable THEN L.nextRid + Len(lrows) ELSE -1, txn |-> t]
         step == [op |-> "overwrite", h |-> h, rows |-> lrows, res |-> "ok"]
     IN /\ Push(v, "ok", step)
        /\ hv' = [hv EXCEPT ![h] = NewVer]
        /\ serial' = {lrows[i] : i \in 1..Len(lrows)}
        /\ issued' = IF Stable THEN issued \cup (L.nextRid..(L.nextRid + Len(lrows) - 1)) ELSE issued
        /\ reused' = (reused \/ (Stable /\ (L.nextRid..(L.nextRid + Len(lrows) - 1)) \cap issued # {}))
        /\ truth' = [i \in {lrows[j].id : j \in 1..Len(lrows)} |-> [cre |-> NewVer, upd |-> NewVer]]
  /\ nops' = nops + 1

DoRestore(h, ver) ==
  /\ "restore" \in OpKinds /\ CanWrite(h) /\ ver \in 1..(NV-1)
  /\ LET O == vers[ver]
         L == Latest
         t == [NoTxn EXCEPT !.kind = "restore", !.restoreTo = ver]
         v == [O EXCEPT !.txn = t,
                        !.nextRid = IF "RestoreRewindsRowIds" \in Deviations THEN O.nextRid
                                    ELSE IF O.nextRid > L.nextRid THEN O.nextRid ELSE L.nextRid]
         step == [op |-> "restore", h |-> h, v |-> ver, res |-> "ok"]
     IN /\ Push(v, "ok", step)
        /\ hv' = [hv EXCEPT ![h] = NewVer]
        /\ serial' = Logical(O)
        /\ truth' = [i \in {r.id : r \in RowSet(O)} |->
                       LET r == CHOOSE x \in RowSet(O) : x.id = i IN [cre |-> r.cre, upd |-> r.upd]]
        /\ UNCHANGED <<issued, reused>>
  /\ nops' = nops + 1

\* build a scalar index on column val from the read version; commits on top of the latest version
DoIndex(h) ==
  /\ "index" \in OpKinds /\ CanWrite(h)
  /\ LET rv == hv[h]
         R == vers[rv]
         nix == [has |-> TRUE, frags |-> FragIds(R), snap |-> [i \in {r.id : r \in RowSet(R)} |-> (CHOOSE r \in RowSet(R) : r.id = i).val]]
         t == [NoTxn EXCEPT !.kind = "index", !.newIx = nix]
         res == Outcome(t, rv)
         step == [op |-> "index", h |-> h, res |-> res]
     IN IF res # "ok" THEN Fail(res, step)
        ELSE LET L == Latest
                 v == [L EXCEPT !.txn = t]
             IN /\ Push(v, "ok", step)
                /\ hv' = [hv EXCEPT ![h] = NewVer]
                /\ UNCHANGED <<issued, truth, serial, reused>>
  /\ nops' = nops + 1

FreshRows == {<<[id |-> i, val |-> v]>> : i \in Ids, v \in AllVals}
             \cup (IF MaxBatch >= 2
                   THEN {<<[id |-> p[1], val |-> v], [id |-> p[2], val |-> w]>> :
                           p \in {q \in Ids \X Ids : q[1] # q[2]}, v \in AllVals, w \in AllVals}
                   ELSE {})

Next ==
  \/ \E h \in Handles, v \in 1..MaxVersions : Checkout(h, v)
  \/ \E h \in Handles, rows \in FreshRows : DoAppend(h, rows)
  \/ \E h \in Handles, S \in (SUBSET Ids) \ {{}} : DoDelete(h, S)
  \/ \E h \in Handles, S \in (SUBSET Ids) \ {{}}, nv \in Vals : DoUpdate(h, S, nv)
  \/ \E h \in Handles, i \in Ids, nv \in Vals : DoUpsert(h, i, nv)
  \/ \E h \in Handles, S \in (SUBSET Ids) \ {{}}, nv \in Vals : DoColUpdate(h, S, nv)
  \/ \E h \in Handles : DoCompact(h)
  \/ \E h \in Handles, rows \in FreshRows : DoOverwrite(h, rows)
  \/ \E h \in Handles, v \in 1..MaxVersions : DoRestore(h, v)
  \/ \E h \in Handles : DoIndex(h)

Spec == Init /\ [][Next]_vars

(***************************************************************************)
(* Properties                                                              *)
(***************************************************************************)
\* C03: committed state equals serial replay; a failed operation changes nothing (Fail keeps vers)
SerialEquivalence == Logical(Latest) = serial
\* C04: every live key appears exactly once (no double image); follows rows, not just values
NoDoubleImage == \A i, j \in 1..Len(Scan(Latest)) : i # j => Scan(Latest)[i].id # Scan(Latest)[j].id
\* C05: structural well-formedness of every version
WellFormedV(v) ==
  /\ \A i, j \in 1..Len(v.frags) : i < j => v.frags[i].id # v.frags[j].id
  /\ \A i \in 1..Len(v.frags) : /\ v.frags[i].id <= v.maxFrag
                                /\ v.frags[i].del \subseteq 0..(Len(v.frags[i].rows)-1)
  /\ Stable => \A r \in RowSet(v) : r.rid >= 0 /\ r.rid < v.nextRid
WellFormed == \A k \in 1..NV : WellFormedV(vers[k])
\* C06: old versions never change
VersionsImmutable == [][\A k \in 1..NV : vers'[k] = vers[k]]_vars
\* C07 / C18: row ids
RowIdUnique == Stable => \A i, j \in 1..Len(Scan(Latest)) : i # j => Scan(Latest)[i].rid # Scan(Latest)[j].rid
RowIdsNeverReused == ~reused
RowIdStable ==  \* a logical row keeps its id while it lives (until deleted or overwritten)
  [][Stable /\ Len(vers') > NV /\ vers'[Len(vers')].txn.kind \in {"update", "rewrite", "append", "delete"} =>
        \A r \in RowSet(Latest), s \in RowSet(vers'[Len(vers')]) : r.id = s.id => r.rid = s.rid]_vars
\* C17: version columns equal the ground truth kept by the model
VersionColumnsCorrect ==
  Stable => \A r \in RowSet(Latest) : r.id \in DOMAIN truth /\ r.cre = truth[r.id].cre /\ r.upd = truth[r.id].upd
\* C07: restore reproduces the old version
RestoreEqualsOld == Latest.txn.kind = "restore" => Scan(Latest) = Scan(vers[Latest.txn.restoreTo])
\* C13: a rewrite does not change contents
RewritePreservesContents == (Latest.txn.kind = "rewrite" /\ NV >= 3) => RowSet(Latest) = RowSet(vers[NV-2])

\* C24: wherever the index claims a fragment, every live row there has the value the index saw
IndexCoverageSound ==
  /\ Len(ix) = NV
  /\ \A k \in 1..NV : ix[k].has =>
        \A i \in 1..Len(vers[k].frags) :
          LET f == vers[k].frags[i] IN
          f.id \in ix[k].frags =>
            \A o \in LiveOffs(f) : f.rows[o+1].id \in DOMAIN ix[k].snap /\ ix[k].snap[f.rows[o+1].id] = f.rows[o+1].val

TypeOK == /\ NV >= 1 /\ NV <= MaxVersions
          /\ lastRes \in {"ok", "retryable", "incompatible"}

\* Scenario export: every maximal history is printed once (GEN configurations)
Done == nops = MaxOps
GenPrint == Done => PrintT(<<"SCN", ToJson(hist)>>)
=============================================================================
