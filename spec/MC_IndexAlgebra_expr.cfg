SPECIFICATION Spec
CONSTANTS
  NF = 1
  NR = 2
  Deviations = {}
  MaxDepth = 3
  Mode = "expr"
INVARIANTS TypeOK GuaranteeKept
CHECK_DEADLOCK FALSE
