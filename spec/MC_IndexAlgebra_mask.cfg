SPECIFICATION Spec
CONSTANTS
  NF = 2
  NR = 1
  Deviations = {}
  MaxDepth = 2
  Mode = "mask"
INVARIANTS TypeOK MaskIsSet
CHECK_DEADLOCK FALSE
