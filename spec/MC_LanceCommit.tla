-------------------------- MODULE MC_LanceCommit --------------------------
(* Model-checking / scenario-generation wrapper of LanceCommit.
   GenPrint (used as an INVARIANT of GEN configurations) prints the schedule of every completed
   behaviour: <<"SCN", json>> with json = [steps |-> <<<<actor, fault>>, ...>>, res |-> actor results].
   With VIEW View the ghost variables hist/last are not part of the fingerprint, so one schedule is
   printed per distinct completed model state.                                                     *)
EXTENDS LanceCommit, Json

Blocked == \A a \in Actors : Terminal(a) \/ (ac[a].pc = "c_lock" /\ lease # 0)
GenPrint ==
  (Blocked /\ ~ENABLED Expire) =>
     PrintT(<<"SCN", ToJson([steps |-> hist,
                              res |-> [a \in {1, 2, 3, 4, 5} |-> ac[a].res],
                              ver |-> [a \in {1, 2, 3, 4, 5} |-> ac[a].ver]])>>)
=============================================================================
