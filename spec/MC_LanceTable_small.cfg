SPECIFICATION Spec
CONSTANTS
  Ids = {1, 2, 3, 4}
  Vals = {5}
  Handles = {"a", "b"}
  MaxVersions = 6
  MaxOps = 4
  Stable = TRUE
  OpKinds = {"append","delete","update","upsert","compact","overwrite","restore","checkout","index","colupdate"}
  MaxBatch = 1
  Deviations = {}
VIEW view
INVARIANTS TypeOK IndexCoverageSound SerialEquivalence NoDoubleImage WellFormed RowIdUnique RowIdsNeverReused VersionColumnsCorrect RestoreEqualsOld RewritePreservesContents
PROPERTIES VersionsImmutable RowIdStable
CHECK_DEADLOCK FALSE
