--------------------------- MODULE ManifestNaming ---------------------------
(* Property C33, state machine:

      build a `_versions` directory (any subset of <= MaxEntries entries of the
      universe)  ->  optionally migrate it to V2 names  ->  open it on a store
      (lexically ordered listing / arbitrary listing order / local directory)
      ->  run latest-version discovery one listed entry per step  ->  done.

   TLC checks, for every directory content and every listing order, that the
   design of ManifestNamingOps resolves exactly the highest attached version
   (ResolveExact), lists exactly the attached versions (ListExact), that a
   migration preserves the version set (MigratePreserves), and -- in the
   initial state -- the laws of the naming operators (NamingLaws).

   With Deviations = {} this is the intended design and every invariant holds.
   With Deviations = {"UnwrapNone"} / {"V2InScanArm"} (the code as built) TLC
   produces the counterexamples that the conformance driver reproduces.      *)
EXTENDS ManifestNamingOps

CONSTANTS MaxEntries,
          Stores         \* subset of {"lex", "unord", "local"}

VARIABLES dir,      \* set of entry ids present in _versions
          pre,      \* directory before the migration ({} if none happened)
          mig,      \* "no" | "yes" | "panic"
          pc,       \* "build" | "scan" | "fallback" | "done"
          store,    \* "none" | "lex" | "unord" | "local" | "localfb"
          lst,      \* the listing (sequence of entry ids) being consumed
          pos,      \* next position in lst
          st,       \* state of the discovery procedure
          out       \* result of resolve_latest_location
vars == <<dir, pre, mig, pc, store, lst, pos, st, out>>

OnObjectStore(d) == "mp" \notin Kinds(d)      \* multipart leftovers exist on a file system only
Lexical == store = "lex"

Init == /\ dir = {} /\ pre = {} /\ mig = "no" /\ pc = "build" /\ store = "none"
        /\ lst = <<>> /\ pos = 1 /\ st = ListInit /\ out = OutPending

Add(e) == /\ pc = "build" /\ mig = "no"
          /\ Cardinality(dir) < MaxEntries
          /\ \A x \in dir : x < e
          /\ dir' = dir \cup {e}
          /\ UNCHANGED <<pre, mig, pc, store, lst, pos, st, out>>

DoMigrate == /\ pc = "build" /\ mig = "no" /\ dir # {}
             /\ pre' = dir
             /\ IF MigPanics(dir, Deviations)
                THEN /\ mig' = "panic" /\ pc' = "done" /\ out' = OutPanic /\ dir' = dir
                ELSE /\ mig' = "yes" /\ dir' = Migrate(dir) /\ UNCHANGED <<pc, out>>
             /\ UNCHANGED <<store, lst, pos, st>>

Open(s, l) == /\ pc = "build"
              /\ s \in Stores
              /\ (s # "local" => OnObjectStore(dir))
              /\ l \in (IF s = "lex" THEN {LexSort(dir)} ELSE Perms(dir))
              /\ store' = s /\ lst' = l /\ pos' = 1 /\ pc' = "scan"
              /\ st' = IF s = "local" THEN LocalInit ELSE ListInit
              /\ UNCHANGED <<dir, pre, mig, out>>

\* one listed entry is examined
Examine == /\ pc = "scan" /\ pos <= Len(lst) /\ st.ph # "done"
           /\ st' = IF store = "local" THEN LocalStep(st, lst[pos])
                    ELSE ListStep(st, lst[pos], Lexical, Deviations)
           /\ pos' = pos + 1
           /\ UNCHANGED <<dir, pre, mig, pc, store, lst, out>>
ExamineListed == Examine /\ store # "local"       \* current_manifest_path over a listing
ExamineLocal  == Examine /\ store = "local"       \* current_manifest_local over readdir

Finish == /\ pc = "scan" /\ (pos > Len(lst) \/ st.ph = "done")
          /\ IF store = "local"
             THEN IF LocalFallsBack(st)
                  \* (the readdir order is forgotten: every order that gives up continues alike)
                  THEN /\ pc' = "fallback" /\ lst' = <<>> /\ pos' = 1 /\ st' = ListInit /\ UNCHANGED out
                  ELSE /\ pc' = "done" /\ out' = BestOut(st) /\ UNCHANGED <<lst, pos, st>>
             ELSE /\ pc' = "done" /\ out' = ListFinish(st) /\ UNCHANGED <<lst, pos, st>>
          /\ UNCHANGED <<dir, pre, mig, store>>

\* the local fast path gave up: list the directory through the object store (any order)
Fallback(l) == /\ pc = "fallback"
               /\ l \in Perms(dir)
               /\ store' = "localfb" /\ lst' = l /\ pos' = 1 /\ st' = ListInit /\ pc' = "scan"
               /\ UNCHANGED <<dir, pre, mig, out>>

OpenAny == \E s \in Stores : \E l \in (IF s = "lex" THEN {LexSort(dir)} ELSE Perms(dir)) : Open(s, l)
FallbackAny == \E l \in Perms(dir) : Fallback(l)
Next == \/ \E e \in Eids : Add(e)
        \/ DoMigrate
        \/ OpenAny
        \/ ExamineListed \/ ExamineLocal
        \/ Finish
        \/ FallbackAny
Spec == Init /\ [][Next]_vars

(***************************************************************************)
(* Properties                                                              *)
(***************************************************************************)
TypeOK == /\ dir \subseteq Eids /\ pre \subseteq Eids
          /\ mig \in {"no", "yes", "panic"}
          /\ pc \in {"build", "scan", "fallback", "done"}
          /\ pos \in 1..(MaxEntries + 1)
          /\ out.t \in {"pending", "ok", "notfound", "err", "panic"}

NamingLaws == (pc = "build" /\ dir = {}) => Laws

Resolved == pc = "done" /\ mig # "panic"
\* C33: latest-version discovery is exact for every directory content and listing order
ResolveExact == Resolved => IF DirClass(dir) = "ok" THEN ResolveOK(dir, out) ELSE ResolveWeak(dir, out)
\* list_manifest_locations on the freshly opened directory
Opened == pc = "scan" /\ pos = 1 /\ store \in {"lex", "unord", "local"}
ListExact == (Opened /\ DirClass(dir) = "ok") =>
                /\ ListOK(dir, TRUE, ListLocations(lst, Lexical, TRUE))
                /\ ListOK(dir, FALSE, ListLocations(lst, Lexical, FALSE))
\* migration keeps the set of versions (junk names are outside the claim)
MigratePreserves == /\ (mig = "yes" /\ "junk" \notin Kinds(pre)) => MigrateOK(pre, dir)
                    /\ (mig = "panic") => "junk" \in Kinds(pre)
\* a lexically ordered listing is what the store model says it is
LexListing == (pc = "scan" /\ store = "lex") =>
                 \A i \in 1..(Len(lst) - 1) : NameLess(NameTab[lst[i]], NameTab[lst[i+1]])
=============================================================================
