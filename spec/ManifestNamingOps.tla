------------------------ MODULE ManifestNamingOps ------------------------
(* Property C33 -- manifest naming and latest-version discovery.

   Variable-free part: the meaning of manifest names and the design of the
   discovery procedures, transcribed from
     rust/lance-table/src/io/commit.rs  (ManifestNamingScheme::{manifest_path,
        parse_version, detect_scheme, detect_scheme_staging}, current_manifest_path,
        current_manifest_local, list_manifest_locations, migrate_scheme_to_v2)
     rust/lance-table/src/format/manifest.rs (DETACHED_VERSION_MASK = 2^63).

   TLC integers are 32 bit, version numbers are u64.  A version is therefore a
   *decimal numeral*: a sequence of digits 0..9, most significant first, without
   leading zeros.  u64::MAX - v, zero padding to 20 digits, comparison and the
   detached bit (v >= 2^63) are computed on numerals (school arithmetic), so the
   names the specification talks about are the real 20-character names.  File
   names are sequences of one-character strings.

   A directory listing is a sequence of *entries* drawn from a finite universe
   (kind x embedded version).  The embedding (which five u64 values stand behind
   the version indices 1..5) is chosen by name (`EmbName`); the driver uses the
   same table and the trace validator checks that it did.                    *)
EXTENDS Integers, Sequences, FiniteSets, SequencesExt, TLC

CONSTANTS EmbName,      \* "low" | "dec" | "mid" | "top" | "wide"
          Deviations    \* subset of {"UnwrapNone", "V2InScanArm"}: behaviour of the code as found
                        \* where that differs from the intended design ({} = intended)

NONE == <<-1>>
Schemes == {"V1", "V2"}
Perms(S) == {p \in [1..Cardinality(S) -> S] : \A i, j \in 1..Cardinality(S) : i # j => p[i] # p[j]}
MaxOf(S) == CHOOSE x \in S : \A y \in S : y <= x
MinOf(S) == CHOOSE x \in S : \A y \in S : x <= y

(***************************************************************************)
(* Decimal numerals                                                        *)
(***************************************************************************)
U64MAX   == <<1,8,4,4,6,7,4,4,0,7,3,7,0,9,5,5,1,6,1,5>>     \* 2^64 - 1
FIRSTDET == <<9,2,2,3,3,7,2,0,3,6,8,5,4,7,7,5,8,0,8>>       \* 2^63: the detached bit

IsNumeral(d) == /\ Len(d) >= 1
                /\ \A i \in 1..Len(d) : d[i] \in 0..9
                /\ (Len(d) > 1 => d[1] # 0)
PadTo(d, n) == [i \in 1..n |-> IF i <= n - Len(d) THEN 0 ELSE d[i - (n - Len(d))]]
RECURSIVE StripZ(_)
StripZ(d) == IF Len(d) > 1 /\ d[1] = 0 THEN StripZ(Tail(d)) ELSE d
\* lexicographic order on integer sequences of equal length
SeqLess(a, b) == \E i \in 1..Len(a) : a[i] < b[i] /\ \A j \in 1..(i-1) : a[j] = b[j]
NumLess(a, b) == LET n == IF Len(a) > Len(b) THEN Len(a) ELSE Len(b)
                 IN SeqLess(PadTo(a, n), PadTo(b, n))
IsU64(d) == IsNumeral(d) /\ Len(d) <= 20 /\ ~NumLess(U64MAX, d)
IsDetached(v) == ~NumLess(v, FIRSTDET)            \* version & 0x8000_0000_0000_0000 != 0

\* a - b on n-digit sequences (a >= b): digits 1..i of the result, given the borrow into digit i
RECURSIVE SubFrom(_, _, _, _)
SubFrom(a, b, i, borrow) ==
  IF i = 0 THEN <<>>
  ELSE LET t == a[i] - b[i] - borrow
       IN Append(SubFrom(a, b, i - 1, IF t < 0 THEN 1 ELSE 0), IF t < 0 THEN t + 10 ELSE t)
\* u64::MAX - v as the 20 digit, zero padded sequence of `{inverted_version:020}`
Inv20(v) == SubFrom(U64MAX, PadTo(v, 20), 20, 0)

(***************************************************************************)
(* Characters and names                                                    *)
(***************************************************************************)
DigitChar == <<"0","1","2","3","4","5","6","7","8","9">>
IsDigitChar(c) == \E d \in 1..10 : DigitChar[d] = c
DigitVal(c) == (CHOOSE d \in 1..10 : DigitChar[d] = c) - 1
NumChars(d) == [i \in 1..Len(d) |-> DigitChar[d[i] + 1]]
\* the characters that occur in names of the universe, in ASCII (= UTF-8 byte) order
Alpha == <<"#", "+", "-", ".", "0","1","2","3","4","5","6","7","8","9", "_",
           "a","b","c","d","e","f","g","h","i","j","k","l","m","n","o","p","q","r","s","t",
           "u","v","w","x","y","z">>
CodeTab == [c \in {Alpha[i] : i \in 1..Len(Alpha)} |-> CHOOSE i \in 1..Len(Alpha) : Alpha[i] = c]
\* byte-wise string order: the listing order of a lexically ordered object store
RECURSIVE NameLessFrom(_, _, _)
NameLessFrom(a, b, i) ==
  IF i > Len(a) THEN i <= Len(b)                 \* a is a proper prefix of b
  ELSE IF i > Len(b) THEN FALSE
  ELSE IF a[i] = b[i] THEN NameLessFrom(a, b, i + 1)
  ELSE CodeTab[a[i]] < CodeTab[b[i]]
NameLess(a, b) == NameLessFrom(a, b, 1)

EXT  == <<"m","a","n","i","f","e","s","t">>          \* MANIFEST_EXTENSION
DOT  == <<".">>
HexChars == {"0","1","2","3","4","5","6","7","8","9","a","b","c","d","e","f","-"}
IsUuid(u) == Len(u) = 36 /\ \A i \in 1..36 : u[i] \in HexChars
UUID0 == [i \in 1..36 |-> IF i \in {9, 14, 19, 24} THEN "-" ELSE "0"]

\* manifest_path(base, version).filename()
FormatV1(v)  == NumChars(v) \o DOT \o EXT
FormatV2(v)  == NumChars(Inv20(v)) \o DOT \o EXT
FormatDet(v) == <<"d">> \o NumChars(v) \o DOT \o EXT
Format(s, v) == IF IsDetached(v) THEN FormatDet(v)
                ELSE IF s = "V1" THEN FormatV1(v) ELSE FormatV2(v)

EndsWith(name, suf) == /\ Len(name) >= Len(suf)
                       /\ SubSeq(name, Len(name) - Len(suf) + 1, Len(name)) = suf
FirstDot(name) == IF \E i \in 1..Len(name) : name[i] = "."
                  THEN MinOf({i \in 1..Len(name) : name[i] = "."}) ELSE 0

\* parse_version: the text before the first '.', read as a u64  (str::parse also accepts a
\* leading '+'; such names are never produced and are not modelled)
Parse(s, name) ==
  LET dot == FirstDot(name) IN
  IF dot <= 1 THEN NONE
  ELSE LET p == SubSeq(name, 1, dot - 1) IN
       IF \E i \in 1..Len(p) : ~IsDigitChar(p[i]) THEN NONE
       ELSE LET val == StripZ([i \in 1..Len(p) |-> DigitVal(p[i])]) IN
            IF Len(val) > 20 \/ NumLess(U64MAX, val) THEN NONE
            ELSE IF s = "V1" THEN val ELSE StripZ(Inv20(val))

\* detect_scheme
Detect(name) == IF Len(name) >= 1 /\ name[1] = "d" THEN "V2"
                ELSE IF EndsWith(name, EXT) THEN (IF Len(name) = 29 THEN "V2" ELSE "V1")
                ELSE "none"
\* detect_scheme_staging
DetectStaging(name) == IF Len(name) >= 21 /\ name[21] = "." THEN "V2" ELSE "V1"

(***************************************************************************)
(* Embeddings and the universe of directory entries                        *)
(***************************************************************************)
NA == 3      \* attached version indices 1..NA (increasing)
ND == 2      \* detached version indices NA+1..NA+ND
EmbOf(n) ==
  CASE n = "low"  -> <<<<0>>, <<1>>, <<2>>, <<9,2,2,3,3,7,2,0,3,6,8,5,4,7,7,5,8,0,8>>, <<9,2,2,3,3,7,2,0,3,6,8,5,4,7,7,5,8,0,9>>>>
    [] n = "dec"  -> <<<<9>>, <<1,0>>, <<1,1>>, <<9,2,2,3,3,7,2,0,3,6,8,5,4,7,7,5,8,1,7>>, <<1,0,0,0,0,0,0,0,0,0,0,0,0,0,0,0,0,0,0,0>>>>
    [] n = "mid"  -> <<<<4,2,9,4,9,6,7,2,9,5>>, <<4,2,9,4,9,6,7,2,9,6>>, <<4,2,9,4,9,6,7,2,9,7>>, <<9,2,2,3,3,7,2,0,4,1,1,4,9,7,4,3,1,0,4>>, <<1,8,4,4,6,7,4,4,0,7,3,7,0,9,5,5,1,6,1,4>>>>
    [] n = "top"  -> <<<<9,2,2,3,3,7,2,0,3,6,8,5,4,7,7,5,8,0,5>>, <<9,2,2,3,3,7,2,0,3,6,8,5,4,7,7,5,8,0,6>>, <<9,2,2,3,3,7,2,0,3,6,8,5,4,7,7,5,8,0,7>>, <<9,2,2,3,3,7,2,0,3,6,8,5,4,7,7,5,8,0,8>>, <<1,8,4,4,6,7,4,4,0,7,3,7,0,9,5,5,1,6,1,5>>>>
    [] n = "wide" -> <<<<1>>, <<4,2,9,4,9,6,7,2,9,6>>, <<9,2,2,3,3,7,2,0,3,6,8,5,4,7,7,5,8,0,7>>, <<9,2,2,3,3,7,2,0,3,6,8,5,4,7,7,5,8,0,8>>, <<1,8,4,4,6,7,4,4,0,7,3,7,0,9,5,5,1,6,1,5>>>>
Emb == EmbOf(EmbName)
EmbNames == {"low", "dec", "mid", "top", "wide"}

\* versions on which the operator laws are evaluated (0, 1, 9/10, 99/100, 2^32-1..2^32+1,
\* 10^18-1, 10^18, 2^63-3..2^63+1, 2^63+9, 2^63+2^32, 10^19-1, 10^19, u64::MAX-1, u64::MAX)
Probe == {<<0>>, <<1>>, <<2>>, <<9>>, <<1,0>>, <<1,1>>, <<9,9>>, <<1,0,0>>,
  <<4,2,9,4,9,6,7,2,9,5>>, <<4,2,9,4,9,6,7,2,9,6>>, <<4,2,9,4,9,6,7,2,9,7>>,
  <<9,9,9,9,9,9,9,9,9,9,9,9,9,9,9,9,9,9>>,
  <<1,0,0,0,0,0,0,0,0,0,0,0,0,0,0,0,0,0,0>>,
  <<9,2,2,3,3,7,2,0,3,6,8,5,4,7,7,5,8,0,5>>, <<9,2,2,3,3,7,2,0,3,6,8,5,4,7,7,5,8,0,6>>,
  <<9,2,2,3,3,7,2,0,3,6,8,5,4,7,7,5,8,0,7>>, <<9,2,2,3,3,7,2,0,3,6,8,5,4,7,7,5,8,0,8>>,
  <<9,2,2,3,3,7,2,0,3,6,8,5,4,7,7,5,8,0,9>>, <<9,2,2,3,3,7,2,0,3,6,8,5,4,7,7,5,8,1,7>>,
  <<9,2,2,3,3,7,2,0,4,1,1,4,9,7,4,3,1,0,4>>,
  <<9,9,9,9,9,9,9,9,9,9,9,9,9,9,9,9,9,9,9>>,
  <<1,0,0,0,0,0,0,0,0,0,0,0,0,0,0,0,0,0,0,0>>,
  <<1,8,4,4,6,7,4,4,0,7,3,7,0,9,5,5,1,6,1,4>>, <<1,8,4,4,6,7,4,4,0,7,3,7,0,9,5,5,1,6,1,5>>}
ProbeAtt == {v \in Probe : ~IsDetached(v)}
ProbeDet == {v \in Probe : IsDetached(v)}

(* Entry kinds:
     v1   <v>.manifest                      published, V1 name
     v2   <u64::MAX - v : 020>.manifest     published, V2 name
     det  d<v>.manifest                     detached manifest (v >= 2^63)
     stg1 <v>.manifest-<uuid>               staging file of RenameCommitHandler / external store, V1
     stg2 <inverted>.manifest-<uuid>        the same, V2
     stgd d<v>.manifest-<uuid>              staging file of a detached commit
     tmp  .tmp_<v>.manifest_<uuid>          temporary file (named in current_manifest_local)
     junk irrelevant | foo.manifest | draft.txt      names that are nobody's
     mp   <inverted>.manifest#1             multipart leftover of LocalFileSystem (local only)  *)
Universe == << <<"v1",1>>, <<"v1",2>>, <<"v1",3>>, <<"v2",1>>, <<"v2",2>>, <<"v2",3>>,
               <<"det",4>>, <<"det",5>>, <<"stg1",1>>, <<"stg1",3>>, <<"stg2",1>>, <<"stg2",3>>,
               <<"stgd",4>>, <<"tmp",3>>, <<"junk",1>>, <<"junk",2>>, <<"junk",3>>, <<"mp",3>> >>
NE == Len(Universe)
Eids == 1..NE
Kind(e) == Universe[e][1]
Idx(e)  == Universe[e][2]
JunkName == << <<"i","r","r","e","l","e","v","a","n","t">>,
               <<"f","o","o",".","m","a","n","i","f","e","s","t">>,
               <<"d","r","a","f","t",".","t","x","t">> >>
HasUuid(e) == Kind(e) \in {"stg1", "stg2", "stgd", "tmp"}
\* the name without its trailing uuid
Stem(e) ==
  LET k == Kind(e)  i == Idx(e) IN
  CASE k = "v1"   -> FormatV1(Emb[i])
    [] k = "v2"   -> FormatV2(Emb[i])
    [] k = "det"  -> FormatDet(Emb[i])
    [] k = "stg1" -> FormatV1(Emb[i]) \o <<"-">>
    [] k = "stg2" -> FormatV2(Emb[i]) \o <<"-">>
    [] k = "stgd" -> FormatDet(Emb[i]) \o <<"-">>
    [] k = "tmp"  -> <<".","t","m","p","_">> \o FormatV1(Emb[i]) \o <<"_">>
    [] k = "mp"   -> FormatV2(Emb[i]) \o <<"#","1">>
    [] k = "junk" -> JunkName[i]
NameTab == [e \in Eids |-> IF HasUuid(e) THEN Stem(e) \o UUID0 ELSE Stem(e)]
\* does a concrete file name (from the implementation) denote entry e?
NameMatches(e, name) ==
  IF HasUuid(e)
  THEN LET n == Len(Stem(e)) IN
       /\ Len(name) = n + 36
       /\ SubSeq(name, 1, n) = Stem(e)
       /\ IsUuid(SubSeq(name, n + 1, n + 36))
  ELSE name = Stem(e)

\* what the code's classification functions say about each entry (constant tables)
DetTab == [e \in Eids |-> Detect(NameTab[e])]
ParseTab == [e \in Eids |->
   IF DetTab[e] = "none" THEN 0
   ELSE LET p == Parse(DetTab[e], NameTab[e]) IN
        IF p = NONE THEN 0
        ELSE IF \E i \in 1..(NA+ND) : Emb[i] = p THEN CHOOSE i \in 1..(NA+ND) : Emb[i] = p ELSE -1]
\* position of every entry in a lexically ordered listing
LexRank == [e \in Eids |-> Cardinality({x \in Eids : NameLess(NameTab[x], NameTab[e])})]
LexSort(S) == SetToSortSeq(S, LAMBDA a, b : LexRank[a] < LexRank[b])
V2Eid(i) == CHOOSE e \in Eids : Universe[e] = <<"v2", i>>

(***************************************************************************)
(* Laws of the naming operators (evaluated by TLC on Probe / the universe)  *)
(***************************************************************************)
\* every attached version's path parses back to it, under both schemes, also as a staging name
RoundTrip ==
  \A s \in Schemes, v \in ProbeAtt :
     /\ Parse(s, Format(s, v)) = v
     /\ Detect(Format(s, v)) = s
     /\ Parse(s, Format(s, v) \o <<"-">> \o UUID0) = v
     /\ DetectStaging(Format(s, v) \o <<"-">> \o UUID0) = s
     /\ Detect(Format(s, v) \o <<"-">> \o UUID0) = "none"
\* a detached version is never mistaken for an attached one
DetachedApart ==
  \A s \in Schemes, d \in ProbeDet :
     /\ Format(s, d) = FormatDet(d)
     /\ \A s2 \in Schemes : Parse(s2, Format(s, d)) = NONE
     /\ \A s2 \in Schemes, v \in ProbeAtt : Format(s2, v) # Format(s, d)
\* V2 names have a fixed width and sort in reverse version order; detached names sort after all
V2Order ==
  /\ \A v \in ProbeAtt : Len(FormatV2(v)) = 29
  /\ \A v, w \in ProbeAtt : NumLess(v, w) <=> NameLess(FormatV2(w), FormatV2(v))
  /\ \A v \in ProbeAtt, d \in ProbeDet, s \in Schemes : NameLess(Format(s, v), FormatDet(d))
Injective ==
  \A s1, s2 \in Schemes, v, w \in ProbeAtt : Format(s1, v) = Format(s2, w) => (s1 = s2 /\ v = w)
Arithmetic ==
  /\ \A v \in Probe : IsU64(v) /\ StripZ(Inv20(StripZ(Inv20(v)))) = v
  /\ \A v, w \in Probe : NumLess(v, w) <=> NumLess(StripZ(Inv20(w)), StripZ(Inv20(v)))
  /\ \A n \in EmbNames : \A i \in 1..(NA+ND) :
        /\ EmbOf(n)[i] \in Probe
        /\ IsDetached(EmbOf(n)[i]) = (i > NA)
        /\ (i > 1 => NumLess(EmbOf(n)[i-1], EmbOf(n)[i]))      \* order preserving
\* the tables do not depend on the uuids: the order of two names is decided before a uuid starts
UuidIrrelevant ==
  \A a, b \in Eids : a # b =>
     LET A == Stem(a)  B == Stem(b)
         m == IF Len(A) < Len(B) THEN Len(A) ELSE Len(B) IN
     \/ \E i \in 1..m : A[i] # B[i]
     \/ (Len(A) < Len(B) /\ ~HasUuid(a))
     \/ (Len(B) < Len(A) /\ ~HasUuid(b))
TablesSane == \A e \in Eids : ParseTab[e] # -1
              /\ (Kind(e) \in {"v1","v2"} => ParseTab[e] = Idx(e) /\ DetTab[e] = (IF Kind(e) = "v1" THEN "V1" ELSE "V2"))
Laws == RoundTrip /\ DetachedApart /\ V2Order /\ Injective /\ Arithmetic /\ UuidIrrelevant /\ TablesSane

(***************************************************************************)
(* Directory contents and what the property demands                        *)
(***************************************************************************)
Kinds(dir)   == {Kind(e) : e \in dir}
Att(dir)     == {e \in dir : Kind(e) \in {"v1", "v2"}}
AttVers(dir) == {Idx(e) : e \in Att(dir)}
(* Scope of the exactness claim.  Excluded (judged only weakly / informationally):
     "junk"   names that are neither manifests nor staging/temporary files,
     "mixed"  V1 and V2 names together (only legal while migrate_scheme_to_v2 runs, which
              "should run until completion before resuming other operations"),
     "v1det"  detached manifests in a V1 directory ("detached commits cannot be used with v1
              manifest paths").                                                          *)
DirClass(dir) ==
  IF "junk" \in Kinds(dir) THEN "junk"
  ELSE IF {"v1", "v2"} \subseteq Kinds(dir) THEN "mixed"
  ELSE IF "v1" \in Kinds(dir) /\ Kinds(dir) \cap {"det", "stgd"} # {} THEN "v1det"
  ELSE "ok"
DirShape(dir) ==    \* coarse description used in finding signatures
  IF Att(dir) = {} THEN (IF Kinds(dir) \cap {"det","stgd"} # {} THEN "detached-only" ELSE "no-manifest")
  ELSE IF Kinds(dir) \cap {"det","stgd"} # {} THEN "attached+detached" ELSE "attached"

OutOk(v, e, s) == [t |-> "ok", v |-> v, e |-> e, s |-> s]
OutNotFound    == [t |-> "notfound", v |-> 0, e |-> 0, s |-> "none"]
OutErr         == [t |-> "err", v |-> 0, e |-> 0, s |-> "none"]
OutPanic       == [t |-> "panic", v |-> 0, e |-> 0, s |-> "none"]
OutPending     == [t |-> "pending", v |-> 0, e |-> 0, s |-> "none"]
SchemeOfKind(k) == IF k = "v1" THEN "V1" ELSE "V2"

\* C33: the resolved latest manifest is the highest published (attached) version
ResolveOK(dir, out) ==
  IF Att(dir) = {} THEN out.t \in {"notfound", "err"}
  ELSE /\ out.t = "ok"
       /\ out.v = MaxOf(AttVers(dir))
       /\ out.e \in Att(dir) /\ Idx(out.e) = out.v
       /\ out.s = SchemeOfKind(Kind(out.e))
\* outside the scope: no claim of exactness, but never a version that is not there
ResolveWeak(dir, out) ==
  \/ out.t \in {"notfound", "err"}
  \/ out.t = "ok" /\ out.e \in Att(dir) /\ Idx(out.e) = out.v
\* list_manifest_locations: exactly the attached versions; descending when asked
ListOK(dir, sorted, items) ==     \* items: sequence of eids
  /\ \A k \in 1..Len(items) : items[k] \in Att(dir)
  /\ {items[k] : k \in 1..Len(items)} = Att(dir)
  /\ Len(items) = Cardinality(Att(dir))
  /\ sorted => \A k \in 1..(Len(items) - 1) : Idx(items[k]) > Idx(items[k+1])
\* migrate_scheme_to_v2: same versions, all under V2 names, nothing else touched
MigrateOK(before, after) ==
  /\ AttVers(after) = AttVers(before)
  /\ "v1" \notin Kinds(after)
  /\ {e \in before : Kind(e) # "v1"} \subseteq after
  /\ after \subseteq {e \in before : Kind(e) # "v1"} \cup {V2Eid(Idx(e)) : e \in {x \in before : Kind(x) = "v1"}}

(***************************************************************************)
(* Design of the discovery procedures (one step per listed entry)          *)
(*                                                                         *)
(* Deviations (the code as found at the pinned commit):                    *)
(*   UnwrapNone   a name that detect_scheme accepts but parse_version       *)
(*                rejects (detached d<v>.manifest, its staging file) is     *)
(*                unwrapped => panic; intended: such an entry is skipped,   *)
(*                as current_manifest_local and list_manifests do.          *)
(*                (repaired in /repo by "fix: ignore detached manifests     *)
(*                when resolving the latest version by listing"; kept here  *)
(*                so that a regression is recognised by name; still what    *)
(*                migrate_scheme_to_v2 does for a junk name x.manifest)     *)
(*   V2InScanArm  in the full-scan arm (non lexical store, or V1 first)     *)
(*                any further V2 name is an error "Found V2 manifest in a   *)
(*                V1 manifest directory", even when the first one was V2;   *)
(*                intended: an error only when the schemes differ.          *)
(***************************************************************************)
ListInit == [ph |-> "first", best |-> 0, fs |-> "none", out |-> OutPending]
Done(st, out) == [st EXCEPT !.ph = "done", !.out = out]
BestOut(st) == OutOk(ParseTab[st.best], st.best, st.fs)

\* current_manifest_path after the local fast path; L = list_is_lexically_ordered
ListStep(st, e, L, D) ==
  IF st.ph = "done" \/ DetTab[e] = "none" THEN st          \* not a manifest name: filtered out
  ELSE IF st.ph = "first" THEN
         IF ParseTab[e] = 0 THEN (IF "UnwrapNone" \in D THEN Done(st, OutPanic) ELSE st)
         ELSE IF DetTab[e] = "V2" /\ L
              THEN [st EXCEPT !.ph = "sanity", !.best = e, !.fs = "V2"]   \* first V2 entry wins
              ELSE [st EXCEPT !.ph = "scan", !.best = e, !.fs = DetTab[e]]
  ELSE IF st.ph = "sanity" THEN      \* the check of the next 999 entries; never changes the answer
         IF DetTab[e] # "V2" THEN Done(st, BestOut(st))
         ELSE IF ParseTab[e] = 0 THEN (IF "UnwrapNone" \in D THEN Done(st, OutPanic) ELSE st)
         ELSE IF ParseTab[e] >= ParseTab[st.best] THEN Done(st, BestOut(st))
         ELSE st
  ELSE \* "scan": look at every entry, keep the maximum
         IF "V2InScanArm" \in D /\ DetTab[e] = "V2" THEN Done(st, OutErr)
         ELSE IF ParseTab[e] = 0 THEN (IF "UnwrapNone" \in D THEN Done(st, OutPanic) ELSE st)
         ELSE IF "V2InScanArm" \notin D /\ DetTab[e] # st.fs THEN Done(st, OutErr)   \* mixed schemes
         ELSE IF ParseTab[e] > ParseTab[st.best] THEN [st EXCEPT !.best = e]
         ELSE st
ListFinish(st) == IF st.ph = "done" THEN st.out
                  ELSE IF st.ph = "first" THEN OutNotFound
                  ELSE BestOut(st)

\* current_manifest_local (std::fs::read_dir); "fallback" = Err / Ok(None): use the list path
LocalInit == [ph |-> "loop", best |-> 0, fs |-> "none", out |-> OutPending]
LocalStep(st, e) ==
  IF st.ph # "loop" \/ DetTab[e] = "none" THEN st
  ELSE IF st.fs # "none" /\ st.fs # DetTab[e] THEN [st EXCEPT !.ph = "fallback"]
  ELSE LET st1 == [st EXCEPT !.fs = DetTab[e]] IN
       IF ParseTab[e] = 0 THEN st1
       ELSE IF st1.best = 0 \/ ParseTab[e] > ParseTab[st1.best] THEN [st1 EXCEPT !.best = e]
       ELSE st1
LocalFallsBack(st) == st.ph = "fallback" \/ (st.ph = "loop" /\ st.best = 0)

RECURSIVE FoldList(_, _, _, _, _)
FoldList(st, lst, k, L, D) == IF k > Len(lst) THEN st ELSE FoldList(ListStep(st, lst[k], L, D), lst, k + 1, L, D)
RunList(lst, L, D) == ListFinish(FoldList(ListInit, lst, 1, L, D))
RECURSIVE FoldLocal(_, _, _)
FoldLocal(st, lst, k) == IF k > Len(lst) THEN st ELSE FoldLocal(LocalStep(st, lst[k]), lst, k + 1)
\* lst1: readdir order, lst2: order of LocalFileSystem::list used by the fallback
RunLocal(lst1, lst2, D) == LET st == FoldLocal(LocalInit, lst1, 1) IN
                           IF LocalFallsBack(st) THEN RunList(lst2, FALSE, D) ELSE BestOut(st)

\* list_manifest_locations: entries that are manifests with a version, in listing order ...
Locations(lst) == SelectSeq(lst, LAMBDA e : DetTab[e] # "none" /\ ParseTab[e] # 0)
\* ... stably sorted by descending version
RECURSIVE InsertDesc(_, _)
InsertDesc(s, e) == IF s = <<>> THEN <<e>>
                    ELSE IF ParseTab[Head(s)] >= ParseTab[e] THEN <<Head(s)>> \o InsertDesc(Tail(s), e)
                    ELSE <<e>> \o s
RECURSIVE SortDesc(_)
SortDesc(s) == IF s = <<>> THEN <<>> ELSE InsertDesc(SortDesc(SubSeq(s, 1, Len(s) - 1)), s[Len(s)])
ListLocations(lst, L, sorted) ==
  LET loc == Locations(lst) IN
  IF ~sorted THEN loc
  ELSE IF L /\ (loc = <<>> \/ DetTab[loc[1]] = "V2") THEN loc      \* trusts the store's order
  ELSE SortDesc(loc)

\* migrate_scheme_to_v2: every name detected as V1 is renamed to the V2 name of its version
MigPanics(dir, D) == "UnwrapNone" \in D /\ \E e \in dir : DetTab[e] = "V1" /\ ParseTab[e] = 0
Migrate(dir) == LET mv == {e \in dir : DetTab[e] = "V1" /\ ParseTab[e] # 0}
                IN (dir \ mv) \cup {V2Eid(ParseTab[e]) : e \in mv}
=============================================================================
