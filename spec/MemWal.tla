------------------------------- MODULE MemWal -------------------------------
(* The MemWAL index under concurrent writers (property C39).

   State = the history of table versions; every version carries the MemWAL index
   (exists?, raw list of [region, generation, state, owner, hi, lu]) and a summary
   of the transaction that produced it.  Writers hold *handles* pinned at a read
   version (exactly as in LanceTable.tla): an operation issued through a stale
   handle is a transaction built from the index of that read version and committed
   now, so the interleavings of concurrent transactions are the assignments of read
   versions and the commit order.  Each API function builds its transaction as the
   code does (MemWalOps!BuildOp); Commit applies the MemWAL arms of check_txn
   (MemWalOps!Check) against every version committed since the read version and
   then update_mem_wal_index_in_indices_list (MemWalOps!ApplyList).

   Owner ids are the handle names: a writer advances / claims with its own id and
   passes as expected owner the owner it sees at its read version (an honest
   caller; dishonest and ill-timed calls are the "invalid" family).

   The ghosts of the property (generations ever trimmed, highest generation seen,
   per-version transaction summaries) are functions of the history, see
   MemWalOps!EverRemoved / GensEver.

   Deviations = {}      the intended design: all seven invariants hold
   Deviations = AsBuilt the code as built (each deviation is named and located in
                        MemWalOps.tla); TLC shows which invariants it breaks       *)
EXTENDS MemWalOps, Json, SequencesExt

CONSTANTS Regions,      \* region names
          MaxGen,       \* generations are 0..MaxGen
          Handles,      \* concurrent writers ("m" is the sequential writer of the prefix)
          MaxOps,       \* operations after the prefix
          MaxHi,        \* bound on WAL entries per generation
          OpKinds,      \* subset of {"advance","append","seal","flush","merge","owner","trim","mmerge",
                        \*            "tappend","checkout","invalid"}
          PrefixIds,    \* which initial prefixes (indices into AllPrefixes)
          Deviations

VARIABLES vers,     \* sequence of versions [idx, list, txn]
          hv,       \* handle -> version it is pinned at
          lastRes,  \* result class of the last operation
          nops,
          todo,     \* calls of the sequential prefix still to be made
          hist      \* ghost: the scenario (prefix + operations), hidden by VIEW
vars == <<vers, hv, lastRes, nops, todo, hist>>
\* committed calls are in vers; rejected calls are kept apart so that every rejected call is explored (and
\* printed) too; only the detours of checkouts are folded
Rejected == SelectSeq(Tail(hist), LAMBDA c : c.res # "ok")
view == <<vers, hv, lastRes, nops, todo, Rejected>>

NV == Len(vers)
Latest == vers[NV]

(***************************************************************************)
(* Abstract operations <<kind, region, generation>> and the concrete call  *)
(* an honest writer h makes for them at the version V it has read          *)
(***************************************************************************)
OpRec(h, k, r, g, exp, own, eid, v) ==
  [h |-> h, k |-> k, r |-> r, g |-> g, exp |-> exp, own |-> own, eid |-> eid, v |-> v, res |-> ""]

LatestOf(V, r) == Get(V.list, <<r, Max(GensOf(V.list, r))>>)
HasGens(V, r) == V.idx /\ GensOf(V.list, r) # {}

Concrete(V, h, a) ==
  LET k == a[1]
      r == a[2]
      g == a[3]
      present == V.idx /\ Has(V.list, <<r, g>>)
      old == Get(V.list, <<r, g>>)
  IN CASE k = "advance" -> OpRec(h, k, r, 0, IF HasGens(V, r) THEN LatestOf(V, r).own ELSE "", h, 0, 0)
       [] k = "append" -> OpRec(h, k, r, g, IF present THEN old.own ELSE "x", "", IF present THEN old.hi + 1 ELSE 1, 0)
       [] k \in {"seal", "flush", "merge", "mmerge"} -> OpRec(h, k, r, g, IF present THEN old.own ELSE "x", "", 0, 0)
       [] k = "owner" -> OpRec(h, k, r, g, "", h, 0, 0)
       [] OTHER -> OpRec(h, k, "", 0, "", "", 0, 0)      \* trim, tappend

\* would the call pass the API's own checks at the version it reads?
ValidAt(V, h, a) ==
  LET k == a[1]
      r == a[2]
      g == a[3]
      present == V.idx /\ Has(V.list, <<r, g>>)
      old == Get(V.list, <<r, g>>)
  IN CASE k = "advance" -> (IF HasGens(V, r) THEN Max(GensOf(V.list, r)) < MaxGen ELSE TRUE)
       [] k = "append" -> present /\ old.st = Open /\ old.hi < MaxHi
       [] k = "seal" -> present /\ old.st = Open
       [] k = "flush" -> present /\ old.st = Sealed
       [] k \in {"merge", "mmerge"} -> present /\ old.st = Flushed
       [] k = "owner" -> present /\ old.own # h
       [] k = "trim" -> V.idx
       [] OTHER -> TRUE

\* calls that the API must reject: wrong state / missing generation, wrong or missing expected owner
InvalidCallsK(V, h, k) ==
  CASE k \in {"append", "seal", "flush", "merge", "mmerge"} ->
         {Concrete(V, h, <<k, r, g>>) : r \in Regions, g \in 0..MaxGen}
         \cup {[Concrete(V, h, <<k, r, g>>) EXCEPT !.exp = "x"] : r \in Regions, g \in 0..MaxGen}
    [] k = "owner" -> {Concrete(V, h, <<k, r, g>>) : r \in Regions, g \in 0..MaxGen}
    [] k = "advance" -> {[Concrete(V, h, <<"advance", r, 0>>) EXCEPT !.exp = e] : r \in Regions, e \in {"x", ""}}
    [] k = "trim" -> {Concrete(V, h, <<"trim", "", 0>>)}
    [] OTHER -> {}

\* the calls of kind k that writer h may issue when it has read version V
CallsK(V, h, k) ==
  IF k \notin OpKinds THEN {}
  ELSE (CASE k = "advance" -> {Concrete(V, h, <<k, r, 0>>) : r \in {x \in Regions : ValidAt(V, h, <<k, x, 0>>)}}
          [] k \in {"trim", "tappend"} -> IF ValidAt(V, h, <<k, "", 0>>) THEN {Concrete(V, h, <<k, "", 0>>)} ELSE {}
          [] OTHER -> {Concrete(V, h, a) : a \in {x \in {k} \X Regions \X (0..MaxGen) : ValidAt(V, h, x)}})
       \cup (IF "invalid" \in OpKinds
             THEN {c \in InvalidCallsK(V, h, k) : BuildOp(Deviations, V, c).pre # "ok"}
             ELSE {})

(***************************************************************************)
(* Executing one call                                                      *)
(***************************************************************************)
\* returns the new history and the result class
Exec(vs, rv, op) ==
  LET p == Predict(Deviations, vs, rv, CallOf(op)) IN
  [res |-> p.res, vs |-> IF p.res = "ok" THEN Append(vs, p.ver) ELSE vs]

(***************************************************************************)
(* Prefixes: sequential histories by writer "m" that build the initial     *)
(* index state (so that every initial state is reachable and every one of  *)
(* its versions can be read by a stale handle)                             *)
(***************************************************************************)
A1 == CHOOSE r \in Regions : TRUE
B1 == IF Cardinality(Regions) > 1 THEN CHOOSE r \in Regions : r # A1 ELSE A1
Adv(r) == <<"advance", r, 0>>
AllPrefixes == <<
  <<>>,                                                                                   \*  1 no index
  <<Adv(A1)>>,                                                                            \*  2 g0 open
  <<Adv(A1), <<"seal", A1, 0>>>>,                                                         \*  3 g0 sealed
  <<Adv(A1), <<"seal", A1, 0>>, <<"flush", A1, 0>>>>,                                     \*  4 g0 flushed
  <<Adv(A1), <<"seal", A1, 0>>, <<"flush", A1, 0>>, <<"merge", A1, 0>>>>,                 \*  5 g0 merged
  <<Adv(A1), <<"seal", A1, 0>>, <<"flush", A1, 0>>, <<"merge", A1, 0>>, <<"trim", "", 0>>>>,   \*  6 region emptied
  <<Adv(A1), Adv(A1)>>,                                                                   \*  7 g0 sealed, g1 open
  <<Adv(A1), Adv(A1), <<"flush", A1, 0>>>>,                                               \*  8 g0 flushed, g1 open
  <<Adv(A1), Adv(A1), <<"flush", A1, 0>>, <<"merge", A1, 0>>>>,                           \*  9 g0 merged, g1 open
  <<Adv(A1), Adv(A1), <<"flush", A1, 0>>, <<"merge", A1, 0>>, <<"trim", "", 0>>>>,        \* 10 g0 trimmed, g1 open
  <<Adv(A1), Adv(A1), <<"flush", A1, 0>>, <<"mmerge", A1, 0>>>>,                          \* 11 g0 merged by merge_insert
  <<Adv(A1), <<"append", A1, 0>>, Adv(A1), <<"flush", A1, 0>>, <<"seal", A1, 1>>>>,       \* 12 g0 flushed, g1 sealed
  <<Adv(A1), Adv(B1)>>,                                                                   \* 13 two regions open
  <<Adv(A1), Adv(B1), <<"seal", A1, 0>>, <<"flush", A1, 0>>, <<"seal", B1, 0>>, <<"flush", B1, 0>>>>, \* 14 both flushed
  <<Adv(A1), Adv(A1), <<"flush", A1, 0>>, <<"merge", A1, 0>>, Adv(B1)>>,                 \* 15 A: merged+open, B: open
  <<Adv(A1), Adv(A1), <<"flush", A1, 0>>, <<"mmerge", A1, 0>>, <<"trim", "", 0>>>>,       \* 16 g0 merged by merge_insert and trimmed, g1 open
  <<Adv(A1), <<"seal", A1, 0>>, <<"flush", A1, 0>>, <<"mmerge", A1, 0>>, <<"trim", "", 0>>>>,  \* 17 region emptied after merge_insert
  <<Adv(A1), <<"seal", A1, 0>>, <<"owner", A1, 0>>, Adv(A1)>>                             \* 18 owner changed, then advanced
>>

V1 == [idx |-> FALSE, list |-> <<>>, txn |-> NoTxn]      \* the freshly created table

\* the prefix is executed one call per step by the sequential writer "m" (todo = calls still to make);
\* the concurrent writers open the table when it is done
Init ==
  \E p \in PrefixIds :
    /\ vers = <<V1>>
    /\ todo = AllPrefixes[p]
    /\ hist = <<[prefix |-> p, steps |-> <<>>]>>
    /\ hv = [h \in Handles |-> 1]
    /\ lastRes = "ok"
    /\ nops = 0

PrefixStep ==
  /\ todo # <<>>
  /\ \E op \in {Concrete(Latest, "m", Head(todo))} :
       \E x \in {Exec(vers, NV, op)} :
         /\ vers' = x.vs
         /\ hv' = [h \in Handles |-> Len(x.vs)]
         /\ lastRes' = x.res
         /\ hist' = <<[hist[1] EXCEPT !.steps = Append(@, [op EXCEPT !.res = x.res])]>>
  /\ todo' = Tail(todo)
  /\ UNCHANGED nops

(***************************************************************************)
(* Actions                                                                 *)
(***************************************************************************)
Checkout(h, v) ==
  /\ todo = <<>>
  /\ "checkout" \in OpKinds /\ nops < MaxOps
  /\ v \in 2..NV /\ hv[h] # v        \* (version 1 is the table before any MemWAL index: nothing to read there)
  /\ hv' = [hv EXCEPT ![h] = v]
  /\ lastRes' = "ok"
  /\ nops' = nops + 1
  /\ hist' = Append(hist, [OpRec(h, "checkout", "", 0, "", "", 0, v) EXCEPT !.res = "ok"])
  /\ UNCHANGED <<vers, todo>>

Call(h, op) ==
  /\ todo = <<>>
  /\ nops < MaxOps
  /\ \E x \in {Exec(vers, hv[h], op)} :       \* (a singleton set: evaluates the call once)
       /\ vers' = x.vs
       /\ hv' = IF x.res = "ok" THEN [hv EXCEPT ![h] = Len(x.vs)] ELSE hv
       /\ lastRes' = x.res
       /\ hist' = Append(hist, [op EXCEPT !.res = x.res])
  /\ nops' = nops + 1
  /\ UNCHANGED todo

\* one disjunct per API function so that TLC's coverage shows each was exercised
CallKind(k) == \E h \in Handles : \E op \in CallsK(vers[hv[h]], h, k) : Call(h, op)
Advance == CallKind("advance")
AppendEntry == CallKind("append")
Seal == CallKind("seal")
Flush == CallKind("flush")
MarkMerged == CallKind("merge")
ChangeOwner == CallKind("owner")
Trim == CallKind("trim")
MergeInsertMerged == CallKind("mmerge")
TableAppend == CallKind("tappend")

Next ==
  \/ PrefixStep
  \/ \E h \in Handles, v \in 2..NV : Checkout(h, v)
  \/ Advance \/ AppendEntry \/ Seal \/ Flush \/ MarkMerged \/ ChangeOwner \/ Trim \/ MergeInsertMerged \/ TableAppend

Spec == Init /\ [][Next]_vars

(***************************************************************************)
(* Properties (names are the finding-signature keys)                       *)
(***************************************************************************)
\* a version never changes once committed (HistoryImmutable) and every version is the newest one of the
\* state that created it, so it is enough to judge the newest version of every state
Checked == {NV}
EachGenerationOnce == \A k \in Checked : EachGenerationOnceAt(vers, k)
Consecutive == \A k \in Checked : ConsecutiveAt(vers, k)
OnlyLatestOpen == \A k \in Checked : OnlyLatestOpenAt(vers, k)
\* the three "action properties" are stated over the recorded history, which never changes
StateMonotone == \A k \in Checked : StateMonotoneAt(vers, k)
TrimmedNeverReappears == \A k \in Checked : TrimmedNeverReappearsAt(vers, k)
NoTwoCommitsOnSameGeneration == \A k \in Checked : NoTwoCommitsOnSameGenerationAt(vers, k)
OwnerChangesSerialise == \A k \in Checked : OwnerChangesSerialiseAt(vers, k)
HistoryImmutable == [][\A k \in 1..NV : vers'[k] = vers[k]]_vars

TypeOK == /\ NV >= 1
          /\ lastRes \in {"ok", "incompatible", "invalid", "unsupported"}
          /\ \A h \in Handles : hv[h] \in 1..NV
          /\ \A k \in 1..NV : \A e \in SeqSet(vers[k].list) : e.st \in Open..Merged /\ e.g \in 0..MaxGen

\* Scenario export: every maximal history is printed once (GEN configurations), together with the finding
\* signatures <<invariant, deviations>> of the model's own history (none for the intended design)
GenPrint == (nops = MaxOps /\ todo = <<>>) =>
              PrintT(<<"SCN", ToJson([hist |-> hist, sigs |-> SetToSeq(SigsOf(Deviations, vers))])>>)
=============================================================================
