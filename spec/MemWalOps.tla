------------------------------ MODULE MemWalOps ------------------------------
(* Variable-free operators of the MemWAL index model (property C39).  Shared by
   MemWal.tla (the state machine TLC model-checks) and Trace_MemWal.tla (the
   validator of recorded implementation traces).

   Transcribed from
     rust/lance/src/index/mem_wal.rs          advance_mem_wal_generation, mutate_mem_wal
                                              (append / seal / flush / merge / owner),
                                              trim_mem_wal_index,
                                              update_mem_wal_index_in_indices_list
     rust/lance/src/dataset/write/merge_insert.rs   mark_mem_wal_as_merged
     rust/lance/src/dataset/transaction.rs    build_manifest arms UpdateMemWalState / Update
     rust/lance/src/io/commit/conflict_resolver.rs
                                              check_update_mem_wal_state_txn,
                                              check_update_mem_wal_state_not_modify_same_mem_wal,
                                              check_update_txn (UpdateMemWalState arm),
                                              check_append_txn (UpdateMemWalState arm)
     rust/lance-index/src/mem_wal.rs          MemWalIndex::new (the last list entry of an id wins)

   Every operator that depends on a behaviour where the code as built differs from
   the intended design takes the set D of enabled *deviations*:

     TrimOtherSkipsCheck         a committed trim-only transaction is "compatible with any other
                                 UpdateMemWalState" (check_update_mem_wal_state_txn, step 1): a
                                 stale mutation of a generation the trim removed commits and
                                 re-adds it.  Intended: conflict when the committed trim removed a
                                 generation this transaction writes.
     MemWalIgnoresMerge          UpdateMemWalState vs committed Update{mem_wal_to_merge: Some} is
                                 always OK (the TODO arm).  Intended: conflict on the same id.
     MergeIgnoresMerge           Update{mem_wal_to_merge} vs committed Update{mem_wal_to_merge} is
                                 decided on fragments only.  Intended: conflict on the same id.
     MergeIgnoresTrim            check_update_txn compares mem_wal_to_merge with `added` and
                                 `updated` of a committed UpdateMemWalState but not with `removed`.
     AdvanceIgnoresClosedLatest  advance_mem_wal_generation checks the expected owner against the
                                 latest generation but only lists that generation in the
                                 transaction when it was open, so a concurrent owner change of a
                                 sealed/flushed/merged latest generation is not detected.
                                 Intended (= the repaired code): the latest generation is always
                                 in `updated` / `removed` (unchanged when it is not open), so any
                                 concurrent change of it conflicts.
     TrimRemovesLatest           trim_mem_wal_index removes every merged generation, also the
                                 newest of a region; the region then restarts at generation 0.
                                 Intended: the newest generation of a region is kept.          *)
EXTENDS Naturals, Integers, Sequences, FiniteSets, TLC, FiniteSetsExt

Open == 0
Sealed == 1
Flushed == 2
Merged == 3

AsBuiltSeq == <<"TrimOtherSkipsCheck", "MemWalIgnoresMerge", "MergeIgnoresMerge", "MergeIgnoresTrim",
                "AdvanceIgnoresClosedLatest", "TrimRemovesLatest">>
AsBuilt == {AsBuiltSeq[i] : i \in 1..Len(AsBuiltSeq)}

(***************************************************************************)
(* Entries and lists                                                       *)
(***************************************************************************)
\* lu = last_updated_dataset_version, hi = highest WAL entry id (0 = none)
Entry(r, g, st, own, hi, lu) == [r |-> r, g |-> g, st |-> st, own |-> own, hi |-> hi, lu |-> lu]
Id(e) == <<e.r, e.g>>
SeqSet(s) == {s[i] : i \in 1..Len(s)}
Ids(s) == {Id(s[i]) : i \in 1..Len(s)}
Has(list, id) == id \in Ids(list)
\* MemWalIndex::new inserts the list into region -> BTreeMap<generation, MemWal>: the last entry of an id wins
Get(list, id) == list[Max({i \in 1..Len(list) : Id(list[i]) = id})]
RegionsOf(list) == {list[i].r : i \in 1..Len(list)}
GensOf(list, r) == {list[i].g : i \in {j \in 1..Len(list) : list[j].r = r}}

(***************************************************************************)
(* Transactions                                                            *)
(*   kind: "none" | "memwal" (UpdateMemWalState) | "merge" (Update with    *)
(*         mem_wal_to_merge) | "tappend" (plain Append)                    *)
(*   removed: set of ids (removal is by id);  guard: ids whose owner the   *)
(*   API call compared with expected_owner_id;  rv: read version;          *)
(*   op: the API call that built it                                        *)
(***************************************************************************)
NoCall == [k |-> "none", r |-> "", g |-> 0, exp |-> "", own |-> "", eid |-> 0]
NoTxn == [kind |-> "none", added |-> <<>>, updated |-> <<>>, removed |-> {}, toMerge |-> <<>>,
          guard |-> {}, rv |-> 0, op |-> NoCall]
Writes(t) == Ids(t.added) \cup Ids(t.updated) \cup Ids(t.toMerge)

Pre(c) == [pre |-> c, txn |-> NoTxn]
OkT(t) == [pre |-> "ok", txn |-> t]

\* op = [k, r, g, exp, own, eid]   exp = "" means expected_owner_id = None
BuildAdvance(D, V, op) ==
  IF ~V.idx \/ GensOf(V.list, op.r) = {}
  THEN IF op.exp # "" THEN Pre("invalid")
       ELSE OkT([NoTxn EXCEPT !.kind = "memwal", !.added = <<Entry(op.r, 0, Open, op.own, 0, 0)>>])
  ELSE LET lg == Max(GensOf(V.list, op.r))
           latest == Get(V.list, <<op.r, lg>>)
       IN IF op.exp = "" \/ op.exp # latest.own THEN Pre("invalid")
          ELSE OkT([NoTxn EXCEPT !.kind = "memwal",
                                 !.added = <<Entry(op.r, lg + 1, Open, op.own, 0, 0)>>,
                                 !.updated = IF latest.st = Open THEN <<[latest EXCEPT !.st = Sealed]>>
                                             ELSE IF "AdvanceIgnoresClosedLatest" \in D THEN <<>> ELSE <<latest>>,
                                 !.removed = IF latest.st = Open \/ "AdvanceIgnoresClosedLatest" \notin D
                                             THEN {Id(latest)} ELSE {},
                                 !.guard = {Id(latest)}])

\* mutate_mem_wal with the closure of each public function
BuildMutate(V, op) ==
  LET id == <<op.r, op.g>> IN
  IF ~V.idx THEN Pre("unsupported")
  ELSE IF ~Has(V.list, id) THEN Pre("invalid")
  ELSE LET old == Get(V.list, id)
           want == CASE op.k \in {"append", "seal"} -> Open
                     [] op.k = "flush" -> Sealed
                     [] op.k = "merge" -> Flushed
                     [] OTHER -> -1
           new == CASE op.k = "append" -> [old EXCEPT !.hi = op.eid]
                    [] op.k = "seal" -> [old EXCEPT !.st = Sealed]
                    [] op.k = "flush" -> [old EXCEPT !.st = Flushed]
                    [] op.k = "merge" -> [old EXCEPT !.st = Merged]
                    [] OTHER -> [old EXCEPT !.own = op.own]
           valid == IF op.k = "owner" THEN op.own # old.own
                    ELSE /\ old.st = want
                         /\ old.own = op.exp
                         /\ (op.k = "append" => op.eid > old.hi)
       IN IF ~valid THEN Pre("invalid")
          ELSE OkT([NoTxn EXCEPT !.kind = "memwal", !.updated = <<new>>, !.removed = {id},
                                 !.guard = IF op.k = "owner" THEN {} ELSE {id}])

BuildTrim(D, V) ==
  IF ~V.idx THEN Pre("unsupported")
  ELSE LET merged == {id \in Ids(V.list) : Get(V.list, id).st = Merged}
           newest == {<<r, Max(GensOf(V.list, r))>> : r \in RegionsOf(V.list)}
       IN OkT([NoTxn EXCEPT !.kind = "memwal",
                            !.removed = IF "TrimRemovesLatest" \in D THEN merged ELSE merged \ newest])

\* MergeInsertBuilder::mark_mem_wal_as_merged + the Update transaction of the job
BuildMMerge(V, op) ==
  LET id == <<op.r, op.g>> IN
  IF ~V.idx THEN Pre("unsupported")
  ELSE IF ~Has(V.list, id) THEN Pre("invalid")
  ELSE LET old == Get(V.list, id) IN
       IF old.st # Flushed \/ old.own # op.exp THEN Pre("invalid")
       ELSE OkT([NoTxn EXCEPT !.kind = "merge", !.toMerge = <<old>>, !.guard = {id}])

BuildOp(D, V, op) ==
  CASE op.k = "advance" -> BuildAdvance(D, V, op)
    [] op.k \in {"append", "seal", "flush", "merge", "owner"} -> BuildMutate(V, op)
    [] op.k = "trim" -> BuildTrim(D, V)
    [] op.k = "mmerge" -> BuildMMerge(V, op)
    [] op.k = "tappend" -> OkT([NoTxn EXCEPT !.kind = "tappend"])
    [] OTHER -> Pre("invalid")

(***************************************************************************)
(* check_txn: committing `self` after `other` has committed                *)
(***************************************************************************)
\* check_update_mem_wal_state_not_modify_same_mem_wal(committed, to_commit): both sides hold at most
\* one entry in every transaction the API builds; the code compares the first entries
SameFirst(a, b) == a # <<>> /\ b # <<>> /\ Id(a[1]) = Id(b[1])

Check(D, self, other) ==
  LET sk == self.kind
      ok == other.kind
      selfW == Ids(self.added) \cup Ids(self.updated)
  IN
  CASE ok = "none" -> "ok"
    [] sk = "memwal" /\ ok = "memwal" ->
         IF other.added = <<>> /\ other.updated = <<>>
         THEN (IF "TrimOtherSkipsCheck" \notin D /\ selfW \cap other.removed # {} THEN "incompatible" ELSE "ok")
         ELSE IF self.added = <<>> /\ self.updated = <<>> THEN "ok"
         ELSE IF \/ SameFirst(other.added, self.added) \/ SameFirst(other.added, self.updated)
                 \/ SameFirst(other.updated, self.added) \/ SameFirst(other.updated, self.updated)
              THEN "incompatible"
         ELSE "ok"
    [] sk = "memwal" /\ ok = "merge" ->
         IF "MemWalIgnoresMerge" \notin D /\ selfW \cap Ids(other.toMerge) # {} THEN "incompatible" ELSE "ok"
    [] sk = "memwal" /\ ok = "tappend" -> "incompatible"
    [] sk = "merge" /\ ok = "memwal" ->
         IF SameFirst(other.added, self.toMerge) \/ SameFirst(other.updated, self.toMerge) THEN "incompatible"
         ELSE IF "MergeIgnoresTrim" \notin D /\ Ids(self.toMerge) \cap other.removed # {} THEN "incompatible"
         ELSE "ok"
    [] sk = "merge" /\ ok = "merge" ->
         \* the jobs of the scenarios insert fresh keys: no fragment is modified by either side
         IF "MergeIgnoresMerge" \notin D /\ SameFirst(other.toMerge, self.toMerge) THEN "incompatible" ELSE "ok"
    [] sk = "merge" /\ ok = "tappend" -> "ok"
    [] sk = "tappend" /\ ok = "memwal" -> "incompatible"
    [] sk = "tappend" -> "ok"
    [] OTHER -> "ok"

\* vs: the version history (sequence of [idx, list, txn]); t.rv the read version
Outcome(D, t, vs) ==
  IF \E k \in (t.rv + 1)..Len(vs) : Check(D, t, vs[k].txn) # "ok" THEN "incompatible"
  ELSE IF t.kind \in {"memwal", "merge"} /\ ~vs[Len(vs)].idx /\ (t.updated # <<>> \/ t.removed # {} \/ t.kind = "merge")
       THEN "invalid"     \* "Cannot update MemWAL state without a MemWAL index"
  ELSE "ok"

(***************************************************************************)
(* update_mem_wal_index_in_indices_list                                    *)
(***************************************************************************)
Stamp(s, nv) == [i \in 1..Len(s) |-> [s[i] EXCEPT !.lu = nv]]
ApplyList(list, t, nv) ==
  LET rem == IF t.kind = "merge" THEN Ids(t.toMerge) ELSE t.removed
      upd == IF t.kind = "merge" THEN <<[t.toMerge[1] EXCEPT !.st = Merged]>> ELSE t.updated
  IN SelectSeq(list, LAMBDA e : Id(e) \notin rem) \o Stamp(t.added, nv) \o Stamp(upd, nv)
NewVersion(V, t, nv) ==
  IF t.kind = "tappend" THEN [V EXCEPT !.txn = t]
  ELSE [idx |-> TRUE, list |-> ApplyList(V.list, t, nv), txn |-> t]

(***************************************************************************)
(* The property, over a version history vs, at version k                   *)
(***************************************************************************)
RemovedAt(vs, k) == IF k <= 1 THEN {} ELSE Ids(vs[k-1].list) \ Ids(vs[k].list)
EverRemoved(vs, k) == UNION {RemovedAt(vs, j) : j \in 2..k}          \* ids dropped from the list at or before k
GensEver(vs, k, r) == GensOf(vs[k].list, r) \cup {id[2] : id \in {x \in EverRemoved(vs, k) : x[1] = r}}
RegionsEver(vs, k) == RegionsOf(vs[k].list) \cup {id[1] : id \in EverRemoved(vs, k)}

EachGenerationOnceAt(vs, k) ==
  \A i, j \in 1..Len(vs[k].list) : i # j => Id(vs[k].list[i]) # Id(vs[k].list[j])
ConsecutiveAt(vs, k) ==
  \A r \in RegionsEver(vs, k) : GensEver(vs, k, r) = 0..Max(GensEver(vs, k, r))
OnlyLatestOpenAt(vs, k) ==
  \A e \in SeqSet(vs[k].list) : e.st = Open => e.g = Max(GensEver(vs, k, e.r))
StateMonotoneAt(vs, k) ==
  k > 1 =>
    /\ \A e \in SeqSet(vs[k-1].list), f \in SeqSet(vs[k].list) : Id(e) = Id(f) => f.st >= e.st
    /\ \A e \in SeqSet(vs[k-1].list) : Id(e) \notin Ids(vs[k].list) => e.st = Merged      \* only merged generations are trimmed
    /\ \A f \in SeqSet(vs[k].list) : (Id(f) \notin Ids(vs[k-1].list) /\ Id(f) \notin EverRemoved(vs, k-1)) => f.st = Open
TrimmedNeverReappearsAt(vs, k) == Ids(vs[k].list) \cap EverRemoved(vs, k) = {}
NoTwoCommitsOnSameGenerationAt(vs, k) ==
  LET t == vs[k].txn IN
  t.kind # "none" => \A j \in (t.rv + 1)..(k - 1) : Writes(vs[j].txn) \cap Writes(t) = {}
OwnerChangesSerialiseAt(vs, k) ==
  LET t == vs[k].txn IN
  t.kind # "none" =>
    \A id \in t.guard : (Has(vs[t.rv].list, id) /\ Has(vs[k-1].list, id))
                           => Get(vs[k-1].list, id).own = Get(vs[t.rv].list, id).own

InvNames == <<"EachGenerationOnce", "Consecutive", "OnlyLatestOpen", "StateMonotone", "TrimmedNeverReappears",
              "NoTwoCommitsOnSameGeneration", "OwnerChangesSerialise">>
\* invariants of one version (a violation persists while the list stays as it is) vs. invariants of one commit
StateInvs == {"EachGenerationOnce", "Consecutive", "OnlyLatestOpen", "TrimmedNeverReappears"}
Holds(name, vs, k) ==
  CASE name = "EachGenerationOnce" -> EachGenerationOnceAt(vs, k)
    [] name = "Consecutive" -> ConsecutiveAt(vs, k)
    [] name = "OnlyLatestOpen" -> OnlyLatestOpenAt(vs, k)
    [] name = "StateMonotone" -> StateMonotoneAt(vs, k)
    [] name = "TrimmedNeverReappears" -> TrimmedNeverReappearsAt(vs, k)
    [] name = "NoTwoCommitsOnSameGeneration" -> NoTwoCommitsOnSameGenerationAt(vs, k)
    [] name = "OwnerChangesSerialise" -> OwnerChangesSerialiseAt(vs, k)
Violated(vs, k) == {InvNames[i] : i \in {j \in 1..Len(InvNames) : ~Holds(InvNames[j], vs, k)}}
\* what version k newly breaks: every broken commit invariant, and the version invariants that held at k-1
Fresh(vs, k) ==
  LET V == Violated(vs, k) IN
  (V \ StateInvs) \cup {nm \in V \cap StateInvs : k = 1 \/ Holds(nm, vs, k - 1)}

(***************************************************************************)
(* One call against a history: prediction, and the deviations that were    *)
(* necessary for it (finding signatures)                                   *)
(***************************************************************************)
CallOf(o) == [k |-> o.k, r |-> o.r, g |-> o.g, exp |-> o.exp, own |-> o.own, eid |-> o.eid]
\* vs: the history when the call commits; rv: the version the caller has read
Predict(D, vs, rv, op) ==
  LET b == BuildOp(D, vs[rv], op)
      t == [b.txn EXCEPT !.rv = rv, !.op = op]
      res == IF b.pre # "ok" THEN b.pre ELSE Outcome(D, t, vs)
  IN [res |-> res, t |-> t,
      ver |-> IF res = "ok" THEN NewVersion(vs[Len(vs)], t, Len(vs) + 1) ELSE vs[Len(vs)]]
\* The deviations that explain an observed step: the smallest subset D of B (the deviations believed to
\* describe the code) whose prediction is the observed result class and, for a committed call, the observed
\* index.  A repaired defect simply stops needing its deviation; a step that no subset explains is a
\* nonconformance.
Matches(D, vs, rv, op, res, idx, list) ==
  LET p == Predict(D, vs, rv, op) IN
  p.res = res /\ (res = "ok" => (p.ver.idx = idx /\ p.ver.list = list))
RECURSIVE ExplainK(_, _, _, _, _, _, _, _)
ExplainK(k, B, vs, rv, op, res, idx, list) ==
  LET S == {D \in kSubset(k, B) : Matches(D, vs, rv, op, res, idx, list)} IN
  IF S # {} THEN LET D == CHOOSE x \in S : TRUE
                 IN [ok |-> TRUE, dev |-> SelectSeq(AsBuiltSeq, LAMBDA d : d \in D), p |-> Predict(D, vs, rv, op)]
  ELSE IF k >= Cardinality(B) THEN [ok |-> FALSE, dev |-> <<>>, p |-> Predict(B, vs, rv, op)]
  ELSE ExplainK(k + 1, B, vs, rv, op, res, idx, list)
\* `dev` is the smallest explaining subset (the finding signature); the transaction that is remembered for the
\* new version (`p.t`) is the one the believed design B builds whenever B explains the step as well: two designs
\* can publish the same list from different transactions (a trim built with TrimRemovesLatest removes a generation
\* that an earlier trim already removed; the intended trim removes nothing), and later conflict checks read the
\* transaction, not the list
Explain(B, vs, rv, op, res, idx, list) ==
  LET m == ExplainK(0, B, vs, rv, op, res, idx, list) IN
  IF m.ok /\ Matches(B, vs, rv, op, res, idx, list) THEN [m EXCEPT !.p = Predict(B, vs, rv, op)] ELSE m

\* Finding signatures of a whole history built with deviations B: <<invariant, deviations>> for every newly
\* broken invariant of every version; a violating commit that needed no deviation itself inherits those of
\* the closest earlier commit that did (e.g. the advance that restarts at generation 0 after a trim removed
\* the newest one)
SigsOf(B, vs) ==
  LET n == Len(vs)
      necF == [k \in 2..n |-> IF vs[k].txn.kind = "none" THEN <<>>
                              ELSE Explain(B, SubSeq(vs, 1, k - 1), vs[k].txn.rv, vs[k].txn.op,
                                           "ok", vs[k].idx, vs[k].list).dev]
      devF == [k \in 2..n |-> LET J == {j \in 2..k : necF[j] # <<>>} IN IF J = {} THEN <<>> ELSE necF[Max(J)]]
  IN UNION {{<<nm, devF[k]>> : nm \in Fresh(vs, k)} : k \in 2..n}
=============================================================================
