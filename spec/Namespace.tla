----------------------------- MODULE Namespace -----------------------------
(* The namespace catalog as a hierarchical map (property C36).

   Two descriptions of the same catalog run side by side:

     cat    the MEANING: a map  id -> [kind, loc]  where an id is a sequence of names
            (namespace path ++ name), kind is "ns" or "table"; one id holds one object
            (names are unique inside a parent across kinds, as in a directory).
     rows   the DESIGN transcribed from rust/lance-namespace-impls/src/dir/manifest.rs:
            one row [oid, kind, loc] per object in the `__manifest` table, where
            oid = the names joined with the delimiter "$" (build_object_id /
            str_object_id), and every call is a filter over the rows
            (manifest_contains_object, query_manifest_for_table / _namespace,
            the starts_with / contains listing filters, delete_from_manifest).
            In dir mode (no manifest) a row stands for a directory "<name>.lance".

   A name is a sequence of tokens (strings are atomic in TLC): <<"a","$","b">> is the
   name a$b.  Every action applies the call to both descriptions and records both
   results in `last`; the invariants say the design answers exactly as the map.

   The intended design (Deviations = {}) refuses names it cannot store faithfully
   (ValidName) and looks objects up by kind.  Deviations name what the code does today:

     "DelimiterNameAccepted"   names containing "$" are accepted and joined unescaped
     "QuoteNameInterpolated"   names containing "'" are interpolated into the SQL filter text
     "KindBlindLookup"         table_exists / namespace_exists / drop_namespace / the parent
                               check use manifest_contains_object (any kind)
     "PageTruncatedNoToken"    a listing cut at `limit` carries no page token (DirectoryNamespace::
                               apply_pagination; root listing in dir and dual mode)
     "PathEncodingMismatch"    a name with "/" or a non-ASCII letter is written through a URI
                               (Dataset::write, construct_full_uri) but looked up / removed through
                               object_store::Path::child, which percent-encodes it: in dir mode the
                               created table is not found afterwards, in manifest / dual mode
                               drop_table removes the row and then fails                        *)
EXTENDS Naturals, Sequences, FiniteSets, TLC, Json

CONSTANTS Family,       \* which setups this run explores (see FamilyOf); "single" = the five constants below
          NameSet,      \* which names are in play (cfg files cannot hold tuples): see NameSeqOf
          Mode,         \* "dir" | "manifest" | "dual"
          MaxSteps,
          MaxLen,       \* longest table id (2: tables in the root and in depth-1 namespaces; 3: depth 2)
          OpKinds,      \* subset of {"ns", "table", "register", "read", "list", "reopen"}
          Deviations

\* A run explores a family of setups (one TLC process for several small universes: the JVM start dominates
\* otherwise).  The setup is chosen in Init and never changes.
VARIABLE setup          \* [k, names, mode, ops, devs, depth, maxlen, want]
Setup(k, n, m, o, d, st, ml) == [k |-> k, names |-> n, mode |-> m, ops |-> o, devs |-> d, depth |-> st, maxlen |-> ml, want |-> {}]
\* a setup that must break the properties in `want` (1 CatalogIsMap, 2 UnfaithfulNamesRejected, 3 PagingCoversOnce, 4 OperationsAreLocal)
Wanted(s, w) == [s EXCEPT !.want = w]
MUT    == {"ns", "table", "register"}
ALLOPS == {"ns", "table", "register", "read", "list", "reopen"}
DIROPS == {"table", "list", "reopen", "read"}
TLR    == {"table", "list", "reopen"}
AsBuilt == {"DelimiterNameAccepted", "QuoteNameInterpolated", "KindBlindLookup", "PageTruncatedNoToken", "PathEncodingMismatch"}
FamilyOf(f) ==
  CASE f = "single" -> {Setup(1, NameSet, Mode, OpKinds, Deviations, MaxSteps, MaxLen)}
    \* the intended design, quick tier
    [] f = "intended-quick" ->
         {Setup(1, "dollar", "manifest", {"ns", "table"}, {}, 3, 2), Setup(2, "quote", "dual", MUT, {}, 2, 2),
          Setup(3, "path", "dir", TLR, {}, 3, 2), Setup(4, "plain", "dual", {"table", "list"}, {}, 3, 2),
          Setup(5, "uni", "manifest", ALLOPS, {}, 2, 2)}
    \* the intended design, thorough tier (four processes)
    [] f = "intended-a" -> {Setup(1, "dollar", "manifest", MUT, {}, 4, 2), Setup(2, "path", "dir", TLR, {}, 4, 2), Setup(3, "plain", "manifest", ALLOPS, {}, 3, 2)}
    [] f = "intended-b" -> {Setup(1, "quote", "manifest", MUT, {}, 4, 2), Setup(2, "plain", "dual", {"table", "list", "register"}, {}, 4, 2),
                            Setup(3, "mixed", "dual", MUT, {}, 3, 2)}
    [] f = "intended-c" -> {Setup(1, "uni", "dual", MUT, {}, 3, 2), Setup(2, "uni", "manifest", TLR, {}, 3, 2)}
    [] f = "intended-d" -> {Setup(1, "plain", "manifest", MUT, {}, 3, 3), Setup(2, "dollar", "dual", ALLOPS, {}, 3, 2)}
    \* one deviation each: must break the properties named in lib/checks/c36.py
    [] f = "witness" ->
         {Wanted(Setup(1, "dollar", "manifest", MUT, {"DelimiterNameAccepted"}, 3, 2), {1, 2, 4}),
          Wanted(Setup(2, "quote", "manifest", MUT, {"QuoteNameInterpolated"}, 3, 2), {1, 4}),
          Wanted(Setup(3, "plain", "manifest", {"ns", "table"}, {"KindBlindLookup"}, 3, 2), {1}),
          Wanted(Setup(4, "plain", "dual", {"table", "list"}, {"PageTruncatedNoToken"}, 3, 2), {3}),
          Wanted(Setup(5, "path", "dir", {"table"}, {"PathEncodingMismatch"}, 2, 2), {2}),
          Wanted(Setup(6, "uni", "manifest", {"table"}, {"PathEncodingMismatch"}, 2, 2), {1})}
    \* the code as built, for generating longer histories by simulation
    [] f = "asbuilt" ->
         {Setup(1, "dollar", "manifest", ALLOPS, AsBuilt, MaxSteps, MaxLen), Setup(2, "dollar", "dual", ALLOPS, AsBuilt, MaxSteps, MaxLen),
          Setup(3, "quote", "manifest", ALLOPS, AsBuilt, MaxSteps, MaxLen), Setup(4, "quote", "dual", ALLOPS, AsBuilt, MaxSteps, MaxLen),
          Setup(5, "path", "dir", DIROPS, AsBuilt, MaxSteps, MaxLen), Setup(6, "path", "dual", ALLOPS, AsBuilt, MaxSteps, MaxLen),
          Setup(7, "path", "manifest", ALLOPS, AsBuilt, MaxSteps, MaxLen), Setup(8, "uni", "dir", DIROPS, AsBuilt, MaxSteps, MaxLen),
          Setup(9, "uni", "dual", ALLOPS, AsBuilt, MaxSteps, MaxLen), Setup(10, "uni", "manifest", ALLOPS, AsBuilt, MaxSteps, MaxLen),
          Setup(11, "mixed", "manifest", ALLOPS, AsBuilt, MaxSteps, MaxLen), Setup(12, "mixed", "dual", ALLOPS, AsBuilt, MaxSteps, MaxLen),
          Setup(13, "plain", "dir", DIROPS, AsBuilt, MaxSteps, MaxLen), Setup(14, "plain", "dual", ALLOPS, AsBuilt, MaxSteps, MaxLen)}
TheMode == setup.mode
Devs == setup.devs

A    == <<"a">>
B    == <<"b">>
AB   == <<"a", "$", "b">>
AQ   == <<"a", "'", "b">>
INJ  == <<"a", "'", " OR ", "'", "a", "'", "=", "'", "a">>     \* a' OR 'a'='a
ADOT == <<"a", ".", "b">>
ASL  == <<"a", "/", "b">>
EAC  == <<"U+00E9">>                 \* the letter e-acute (TLC prints ASCII only; the check maps it back)
NameSeqOf(s) == CASE s = "plain"  -> <<A, B>>
                  [] s = "dollar" -> <<A, AB, B>>
                  [] s = "quote"  -> <<A, AQ, INJ>>
                  [] s = "path"   -> <<A, ADOT, ASL>>
                  [] s = "uni"    -> <<A, B, EAC>>
                  [] s = "mixed"  -> <<A, AB, AQ, B>>
                  [] s = "all"    -> <<A, AB, AQ, INJ, ADOT, ASL, B, EAC>>
NameSeq == NameSeqOf(setup.names)             \* also the listing order
Names == {NameSeq[i] : i \in 1..Len(NameSeq)}

Has(n, t) == \E i \in 1..Len(n) : n[i] = t
IdsOfLen(k) == [1..k -> Names]
NsIds == IdsOfLen(1) \cup IdsOfLen(2)
TableIds == UNION {IdsOfLen(k) : k \in 1..setup.maxlen}
AllIds == NsIds \cup TableIds
Paths == {<<>>} \cup {p \in NsIds : Len(p) < setup.maxlen}
Parent(id) == SubSeq(id, 1, Len(id) - 1)
Leaf(id) == id[Len(id)]
IsPrefix(p, s) == Len(p) <= Len(s) /\ SubSeq(s, 1, Len(p)) = p

(***************************************************************************)
(* Which names the design refuses                                          *)
(***************************************************************************)
Manifested == TheMode \in {"manifest", "dual"}
ValidName(n) ==
  /\ (Has(n, "$") => "DelimiterNameAccepted" \in Devs \/ ~Manifested)
  /\ (Has(n, "'") => "QuoteNameInterpolated" \in Devs \/ ~Manifested)
  /\ (Has(n, "/") => "PathEncodingMismatch" \in Devs \/ TheMode # "dir")
ValidId(id) == \A i \in 1..Len(id) : ValidName(id[i])
Mismatch(id) == "PathEncodingMismatch" \in Devs /\ \E i \in 1..Len(id) : Has(id[i], "/") \/ Has(id[i], "U+00E9")

(***************************************************************************)
(* The meaning: a map                                                      *)
(***************************************************************************)
MKind(c, id) == IF id \in DOMAIN c THEN c[id].kind ELSE "none"
MIsNs(c, id) == id = <<>> \/ MKind(c, id) = "ns"
MChildren(c, p, k) == {Leaf(id) : id \in {x \in DOMAIN c : Len(x) = Len(p) + 1 /\ Parent(x) = p /\ c[x].kind = k}}
MHasChild(c, p) == \E x \in DOMAIN c : Len(x) > Len(p) /\ IsPrefix(p, x)
Put(c, id, e) == [x \in DOMAIN c \cup {id} |-> IF x = id THEN e ELSE c[x]]
Del(c, id) == [x \in DOMAIN c \ {id} |-> c[x]]

(***************************************************************************)
(* The design: rows and filters                                            *)
(***************************************************************************)
RECURSIVE Enc(_)
Enc(id) == IF Len(id) = 0 THEN <<>> ELSE IF Len(id) = 1 THEN id[1] ELSE id[1] \o <<"$">> \o Enc(Tail(id))
StartsWith(s, p) == Len(p) <= Len(s) /\ SubSeq(s, 1, Len(p)) = p
Rest(s, k) == SubSeq(s, k + 1, Len(s))
\* the text before the first quote of an interpolated value
PreQuote(q) == SubSeq(q, 1, (CHOOSE i \in 1..Len(q) : q[i] = "'" /\ \A j \in 1..(i - 1) : q[j] # "'") - 1)
\* how the SQL text  object_id = '<q>'  reads:  a plain value / broken text /
\*   object_id = 'a' OR 'a'='a'   (a tautology)  /  object_id = 'a' OR 'a'='a$t'  (only the text before the quote counts)
PostQuote(q) == SubSeq(q, (CHOOSE i \in 1..Len(q) : q[i] = "'" /\ \A j \in (i + 1)..Len(q) : q[j] # "'") + 1, Len(q))
QuoteKind(q) == IF ~Has(q, "'") THEN "plain" ELSE IF ~Has(q, " OR ") THEN "broken"
                ELSE IF PostQuote(q) = <<"a">> THEN "taut" ELSE "pre"
MatchAny(q, r) == CASE QuoteKind(q) = "plain" -> r.oid = q [] QuoteKind(q) = "pre" -> r.oid = PreQuote(q) [] OTHER -> TRUE
MatchTyped(q, r, k) == CASE QuoteKind(q) = "plain" -> r.oid = q /\ r.kind = k
                         [] QuoteKind(q) = "pre" -> r.oid = PreQuote(q)
                         [] OTHER -> r.oid = PreQuote(q) \/ r.kind = k       \* a = 'x' OR ('a'='a' AND type = k)
Broken(q) == QuoteKind(q) = "broken"
ERRROW == [oid |-> <<"!">>, kind |-> "error", loc |-> 0]
NOROW  == [oid |-> <<"!">>, kind |-> "none", loc |-> 0]
Contains(rw, q) == \E r \in rw : MatchAny(q, r)                       \* manifest_contains_object
Query(rw, q, k) ==                                                     \* query_manifest_for_table / _namespace
  LET m == {r \in rw : MatchTyped(q, r, k)} IN
  IF Broken(q) \/ Cardinality(m) > 1 THEN ERRROW ELSE IF m = {} THEN NOROW ELSE CHOOSE r \in m : TRUE
Blind == "KindBlindLookup" \in Devs
\* "an object of kind k with this id exists", as the call sites decide it
IHas(rw, id, k) == IF Blind THEN Contains(rw, Enc(id)) ELSE Query(rw, Enc(id), k).kind = k
IErr(id) == Broken(Enc(id))
\* listing filter: starts_with(object_id, '<p>$') AND NOT contains(substring(object_id, len + 2), '$'); name = last segment
RECURSIVE LastSeg(_)
LastSeg(o) == IF ~Has(o, "$") THEN o ELSE LastSeg(Rest(o, CHOOSE i \in 1..Len(o) : o[i] = "$" /\ \A j \in 1..(i - 1) : o[j] # "$"))
IList(rw, p, k) ==
  IF Has(Enc(p), "'") THEN {<<"!err">>}
  ELSE {LastSeg(r.oid) : r \in {r \in rw : r.kind = k /\
          (IF p = <<>> THEN ~Has(r.oid, "$")
           ELSE StartsWith(r.oid, Enc(p) \o <<"$">>) /\ ~Has(Rest(r.oid, Len(Enc(p)) + 1), "$"))}}
IChildren(rw, id) == \E r \in rw : StartsWith(r.oid, Enc(id) \o <<"$">>)

\* observable answers of the design / of the map for one id (what a probe sees)
\* (a call that fails answers "no")
IAns(rw, id) == [te |-> IF ~IErr(id) /\ IHas(rw, id, "table") THEN "yes" ELSE "no",
                 dt |-> LET r == Query(rw, Enc(id), "table") IN IF r.kind = "table" THEN r.loc ELSE 0,
                 ne |-> IF ~IErr(id) /\ IHas(rw, id, "ns") THEN "yes" ELSE "no",
                 dn |-> Query(rw, Enc(id), "ns").kind = "ns"]
MAns(c, id) == [te |-> IF MKind(c, id) = "table" THEN "yes" ELSE "no",
                dt |-> IF MKind(c, id) = "table" THEN c[id].loc ELSE 0,
                ne |-> IF MKind(c, id) = "ns" THEN "yes" ELSE "no",
                dn |-> MKind(c, id) = "ns"]

VARIABLES cat, rows, known, nextLoc, steps, last, hist
vars == <<setup, cat, rows, known, nextLoc, steps, last, hist>>
view == <<setup, cat, rows, known, nextLoc, steps, last>>

NoPages == <<>>
Init ==
  /\ setup \in FamilyOf(Family)
  /\ \A i \in 1..100 : TLCSet(i, 0)          \* registers of the witness printer (WitOnce)
  /\ cat = <<>> /\ rows = {} /\ known = <<>> /\ nextLoc = 1 /\ steps = 0
  /\ last = [op |-> "init", id |-> <<>>, m |-> "ok", i |-> "ok", pages |-> NoPages, listing |-> {}]
  /\ hist = <<>>

Supported(op, id) ==
  IF TheMode = "dir" THEN op \in {"create_table", "create_empty_table", "drop_table", "describe_table", "table_exists", "list_tables", "reopen"}
                       /\ (op = "list_tables" \/ op = "reopen" \/ Len(id) = 1) /\ (op = "list_tables" => id = <<>>)
  ELSE TRUE

Record(rec, op, id, m, i, pages, listing) ==
  /\ UNCHANGED setup
  /\ steps' = steps + 1 /\ hist' = Append(hist, rec @@ [r |-> i])     \* r: what the design answers (used to pick productive histories)
  /\ last' = [op |-> op, id |-> id, m |-> m, i |-> i, pages |-> pages, listing |-> listing]
Unsupported(rec, op, id) ==
  /\ Record(rec, op, id, "unsupported", "unsupported", NoPages, {})
  /\ UNCHANGED <<cat, rows, known, nextLoc>>
Rejected(rec, op, id) ==          \* a name the design refuses: refused by every call, nothing changes
  /\ Record(rec, op, id, "rejected", "rejected", NoPages, {})
  /\ UNCHANGED <<cat, rows, known, nextLoc>>
Guard(kind) == steps < setup.depth /\ kind \in setup.ops

(***************************************************************************)
(* Namespaces                                                              *)
(***************************************************************************)
IParentsOK(rw, id) == \A k \in 1..(Len(id) - 1) : ~IErr(SubSeq(id, 1, k)) /\ IHas(rw, SubSeq(id, 1, k), "ns")
MParentsOK(c, id) == \A k \in 1..(Len(id) - 1) : MKind(c, SubSeq(id, 1, k)) = "ns"

CreateNs(id) ==
  LET rec == [op |-> "create_ns", id |-> id] IN
  /\ Guard("ns") /\ id \in NsIds
  /\ IF ~Supported("create_ns", id) THEN Unsupported(rec, "create_ns", id)
     ELSE IF ~ValidId(id) THEN Rejected(rec, "create_ns", id)
     ELSE LET mok == id \notin DOMAIN cat /\ MParentsOK(cat, id)
              iok == ~IErr(id) /\ IParentsOK(rows, id) /\ ~Contains(rows, Enc(id)) IN
          /\ cat' = IF mok THEN Put(cat, id, [kind |-> "ns", loc |-> 0]) ELSE cat
          /\ rows' = IF iok THEN rows \cup {[oid |-> Enc(id), kind |-> "ns", loc |-> 0]} ELSE rows
          /\ Record(rec, "create_ns", id, IF mok THEN "ok" ELSE "err", IF iok THEN "ok" ELSE "err", NoPages, {})
          /\ UNCHANGED <<known, nextLoc>>

DropNs(id) ==
  LET rec == [op |-> "drop_ns", id |-> id] IN
  /\ Guard("ns") /\ id \in NsIds
  /\ IF ~Supported("drop_ns", id) THEN Unsupported(rec, "drop_ns", id)
     ELSE IF ~ValidId(id) THEN Rejected(rec, "drop_ns", id)
     ELSE LET mok == MKind(cat, id) = "ns" /\ ~MHasChild(cat, id)
              iok == ~Has(Enc(id), "'") /\ IHas(rows, id, "ns") /\ ~IChildren(rows, id) IN    \* (a quote breaks the starts_with filter)
          /\ cat' = IF mok THEN Del(cat, id) ELSE cat
          /\ rows' = IF iok THEN {r \in rows : ~MatchAny(Enc(id), r)} ELSE rows       \* delete_from_manifest
          /\ Record(rec, "drop_ns", id, IF mok THEN "ok" ELSE "err", IF iok THEN "ok" ELSE "err", NoPages, {})
          /\ UNCHANGED <<known, nextLoc>>

(***************************************************************************)
(* Tables                                                                  *)
(***************************************************************************)
\* create_table / create_empty_table do not say whether the parent namespace must exist (register_table
\* and create_namespace check it, the two create calls do not): `strict` leaves both readings open
CreateTable(id, empty, strict) ==
  LET op == IF empty THEN "create_empty_table" ELSE "create_table"
      rec == [op |-> op, id |-> id] IN
  /\ Guard("table") /\ id \in TableIds
  /\ IF ~Supported(op, id) THEN Unsupported(rec, op, id)
     ELSE IF ~ValidId(id) THEN Rejected(rec, op, id)
     ELSE LET mok == id \notin DOMAIN cat /\ (strict => MParentsOK(cat, id))
              iok == ~IErr(id) /\ ~Contains(rows, Enc(id)) /\ (strict => IParentsOK(rows, id))
              lost == Mismatch(id) /\ TheMode = "dir" IN      \* written where no lookup finds it
          /\ cat' = IF mok THEN Put(cat, id, [kind |-> "table", loc |-> nextLoc]) ELSE cat
          /\ rows' = IF iok /\ ~lost THEN rows \cup {[oid |-> Enc(id), kind |-> "table", loc |-> nextLoc]} ELSE rows
          /\ known' = IF mok \/ iok THEN Put(known, id, nextLoc) ELSE known
          /\ nextLoc' = IF mok \/ iok THEN nextLoc + 1 ELSE nextLoc
          /\ Record(rec, op, id, IF mok THEN "ok" ELSE "err", IF iok THEN "ok" ELSE "err", NoPages, {})

DropTable(id, dereg) ==
  LET op == IF dereg THEN "deregister_table" ELSE "drop_table"
      rec == [op |-> op, id |-> id] IN
  /\ Guard(IF dereg THEN "register" ELSE "table") /\ id \in TableIds
  /\ IF ~Supported(op, id) THEN Unsupported(rec, op, id)
     ELSE IF ~ValidId(id) THEN Rejected(rec, op, id)
     ELSE LET mok == MKind(cat, id) = "table"
              found == Query(rows, Enc(id), "table").kind = "table"
              \* drop_table deletes the row, then fails to remove the directory it cannot address
              iok == found /\ ~(Mismatch(id) /\ ~dereg /\ TheMode # "dir") IN
          /\ cat' = IF mok THEN Del(cat, id) ELSE cat
          /\ rows' = IF found THEN {r \in rows : ~MatchAny(Enc(id), r)} ELSE rows
          /\ Record(rec, op, id, IF mok THEN "ok" ELSE "err", IF iok THEN "ok" ELSE "err", NoPages, {})
          /\ UNCHANGED <<known, nextLoc>>

RegisterTable(id, src) ==
  LET rec == [op |-> "register_table", id |-> id, src |-> src] IN
  /\ Guard("register") /\ id \in TableIds /\ src \in DOMAIN known
  /\ IF ~Supported("register_table", id) THEN Unsupported(rec, "register_table", id)
     ELSE IF ~ValidId(id) THEN Rejected(rec, "register_table", id)
     ELSE LET mok == id \notin DOMAIN cat /\ MParentsOK(cat, id)
              iok == ~IErr(id) /\ IParentsOK(rows, id) /\ ~Contains(rows, Enc(id)) IN
          /\ cat' = IF mok THEN Put(cat, id, [kind |-> "table", loc |-> known[src]]) ELSE cat
          /\ rows' = IF iok THEN rows \cup {[oid |-> Enc(id), kind |-> "table", loc |-> known[src]]} ELSE rows
          /\ Record(rec, "register_table", id, IF mok THEN "ok" ELSE "err", IF iok THEN "ok" ELSE "err", NoPages, {})
          /\ UNCHANGED <<known, nextLoc>>

(***************************************************************************)
(* Reads                                                                   *)
(***************************************************************************)
Read(op, id) ==
  LET rec == [op |-> op, id |-> id]
      ia == IAns(rows, id)
      ma == MAns(cat, id)
      i == CASE op = "table_exists" -> ia.te = "yes" [] op = "describe_table" -> ia.dt # 0
             [] op = "ns_exists" -> ia.ne = "yes" [] OTHER -> ia.dn
      m == CASE op = "table_exists" -> ma.te = "yes" [] op = "describe_table" -> ma.dt # 0
             [] op = "ns_exists" -> ma.ne = "yes" [] OTHER -> ma.dn IN
  /\ Guard("read") /\ id \in (IF op \in {"table_exists", "describe_table"} THEN TableIds ELSE NsIds)
  /\ IF ~Supported(op, id) THEN Unsupported(rec, op, id)
     ELSE IF ~ValidId(id) THEN Rejected(rec, op, id)
     ELSE /\ Record(rec, op, id, IF m THEN "ok" ELSE "err", IF i THEN "ok" ELSE "err", NoPages, {})
          /\ UNCHANGED <<cat, rows, known, nextLoc>>

\* paging: the caller follows the response's page token until a response carries none
Sorted(S) == SelectSeq(NameSeq, LAMBDA n : n \in S)
RECURSIVE Chunks(_, _)
Chunks(s, L) == IF Len(s) <= L THEN <<s>> ELSE <<SubSeq(s, 1, L)>> \o Chunks(SubSeq(s, L + 1, Len(s)), L)
PagesOf(S, L, truncates) ==
  LET s == Sorted(S) IN
  IF L = 0 THEN <<s>>
  ELSE IF truncates THEN <<SubSeq(s, 1, IF Len(s) < L THEN Len(s) ELSE L)>>
  ELSE Chunks(s, L)
List(op, p, L) ==
  LET rec == [op |-> op, id |-> p, limit |-> L]
      k == IF op = "list_tables" THEN "table" ELSE "ns"
      il == IList(rows, p, k)
      ierr == il = {<<"!err">>}
      trunc == "PageTruncatedNoToken" \in Devs /\ op = "list_tables" /\ p = <<>> /\ TheMode # "manifest" IN
  /\ Guard("list") /\ p \in Paths /\ MIsNs(cat, p)
  /\ IF ~Supported(op, p) THEN Unsupported(rec, op, p)
     ELSE IF ~ValidId(p) THEN Rejected(rec, op, p)
     ELSE /\ Record(rec, op, p, "ok", IF ierr THEN "err" ELSE "ok",
                    IF ierr THEN NoPages ELSE PagesOf(il, L, trunc), IF ierr THEN {} ELSE il)
          /\ UNCHANGED <<cat, rows, known, nextLoc>>

Reopen ==
  /\ Guard("reopen") /\ steps > 0 /\ last.op # "reopen"
  /\ Record([op |-> "reopen"], "reopen", <<>>, "ok", "ok", NoPages, {})
  /\ UNCHANGED <<cat, rows, known, nextLoc>>

Next ==
  \/ \E id \in NsIds : CreateNs(id) \/ DropNs(id)
  \/ \E id \in TableIds : \E e \in BOOLEAN : \E s \in BOOLEAN : CreateTable(id, e, s)
  \/ \E id \in TableIds : DropTable(id, FALSE) \/ DropTable(id, TRUE)
  \/ \E id \in TableIds : \E src \in DOMAIN known : RegisterTable(id, src)
  \/ \E id \in TableIds : Read("table_exists", id) \/ Read("describe_table", id)
  \/ \E id \in NsIds : Read("ns_exists", id) \/ Read("describe_ns", id)
  \/ \E p \in Paths : \E L \in {0, 1, 2} : List("list_tables", p, L) \/ List("list_ns", p, L)
  \/ Reopen
Spec == Init /\ [][Next]_vars

(***************************************************************************)
(* Properties (names are the finding signatures)                           *)
(***************************************************************************)
TypeOK == /\ DOMAIN cat \subseteq AllIds /\ steps \in 0..setup.depth
          /\ \A id \in DOMAIN cat : cat[id].kind \in {"ns", "table"}
          /\ \A r \in rows : r.kind \in {"ns", "table"}

\* every answer equals the map's answer: the call itself, and every probe afterwards
Flat(pages) == LET RECURSIVE F(_) F(k) == IF k = 0 THEN <<>> ELSE F(k - 1) \o pages[k] IN F(Len(pages))
CatalogIsMap ==
  /\ last.i = last.m
  /\ \A id \in AllIds : ValidId(id) => IAns(rows, id) = MAns(cat, id)
  /\ \A p \in Paths : (ValidId(p) /\ MIsNs(cat, p)) =>
        /\ IList(rows, p, "table") = MChildren(cat, p, "table")
        /\ IList(rows, p, "ns") = MChildren(cat, p, "ns")

\* a name is refused, or it round-trips exactly through exists / describe / list
UnfaithfulNamesRejected ==
  (last.i = "ok" /\ last.op \in {"create_table", "create_empty_table", "register_table", "create_ns"}) =>
     LET k == IF last.op = "create_ns" THEN "ns" ELSE "table" a == IAns(rows, last.id) IN
     /\ (IF k = "ns" THEN a.ne = "yes" /\ a.dn ELSE a.te = "yes" /\ a.dt # 0)
     /\ Leaf(last.id) \in IList(rows, Parent(last.id), k)

\* following the page tokens returns every entry exactly once
PagingCoversOnce ==
  (last.op \in {"list_tables", "list_ns"} /\ last.i = "ok") =>
     LET f == Flat(last.pages) IN
     /\ {f[i] : i \in 1..Len(f)} = last.listing
     /\ \A i, j \in 1..Len(f) : f[i] = f[j] => i = j

\* a step on one id never changes an answer for another id, nor a listing of another parent, and changes
\* the parent's listing by that name only
LocalStep ==
  LET s == last'.id IN
  /\ \A id \in AllIds : (id # s /\ ValidId(id)) => IAns(rows', id) = IAns(rows, id)
  /\ \A p \in Paths : ValidId(p) => \A k \in {"table", "ns"} :
       LET a == IList(rows, p, k) b == IList(rows', p, k) IN
       IF Len(s) > 0 /\ p = Parent(s) THEN (a \ b) \cup (b \ a) \subseteq {Leaf(s)} ELSE a = b
OperationsAreLocal == [][LocalStep]_vars

\* The same properties for the as-built setups: the first violating state of each (setup, property) prints its
\* history as a witness scenario ("WIT"), which the check replays on the real code; the run goes on (one TLC
\* process reports every deviation).  Single worker only (TLCGet / TLCSet registers are per worker).
WitOnce(slot, inv, h) ==
  IF TLCGet(setup.k * 10 + slot) = 0
  THEN TLCSet(setup.k * 10 + slot, 1) /\ PrintT(<<"WIT", ToJson([inv |-> inv, devs |-> setup.devs, names |-> setup.names,
                                                                     mode |-> setup.mode, hist |-> h])>>)
  ELSE TRUE
\* CONSTRAINT of the witness run: a setup is explored until everything it must break has been witnessed
StillWanted == setup.want = {} \/ \E w \in setup.want : TLCGet(setup.k * 10 + w) = 0
CatalogIsMapW == CatalogIsMap \/ WitOnce(1, "CatalogIsMap", hist)
UnfaithfulNamesRejectedW == UnfaithfulNamesRejected \/ WitOnce(2, "UnfaithfulNamesRejected", hist)
PagingCoversOnceW == PagingCoversOnce \/ WitOnce(3, "PagingCoversOnce", hist)
OperationsAreLocalW == [][LocalStep \/ WitOnce(4, "OperationsAreLocal", hist')]_vars

\* Scenario export: one history per distinct final state (GEN configurations)
Done == steps = setup.depth
GenPrint == Done => PrintT(<<"SCN", ToJson([mode |-> setup.mode, names |-> setup.names, hist |-> hist])>>)
=============================================================================
