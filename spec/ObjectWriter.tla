---------------------------- MODULE ObjectWriter ----------------------------
(* Property C31 "Object writes persist exactly the bytes written".

   State machine of one lance_io::object_writer::ObjectWriter against a mock
   multipart store (ObjectWriterOps.React).  TLC explores every sequence of
       write sizes (below / at / above the multipart threshold),
       part-upload resolutions in any order and at any time (ok / failed /
       "connection reset"), faults on put_multipart / put / complete,
       shutdown / abort / drop at any point,
   and checks the four C31 invariants plus PendingCanProgress.

   The same module generates the scenarios the driver (vh_objwriter) replays on
   the real ObjectWriter: `hist` is the list of steps; every closed state prints
   its history once (GenPrint).                                               *)
EXTENDS ObjectWriterOps, TLC, Json

CONSTANTS Part,        \* part size in bytes (5 MiB: the minimum the code accepts)
          MaxPar,      \* LANCE_UPLOAD_CONCURRENCY
          MaxResets,   \* LANCE_CONN_RESET_RETRIES
          StoreMode,   \* "order" | "strict"
          Deviations,  \* {} = intended design; {"RetryAppendsPart"} = as built
          WriteSizes,  \* sizes of write_all calls
          MaxWrites, MaxTotal,
          MaxFaults,   \* faults per scenario
          PartFaults,  \* outcomes a part upload may have besides "ok"
          Plans        \* candidate sets of failing immediate calls

VARIABLES s, hist
vars == <<s, hist>>

Cfg(plan) == [part |-> Part, maxpar |-> MaxPar, maxresets |-> MaxResets, mode |-> StoreMode, plan |-> plan]

Init == /\ \E plan \in Plans : Cardinality(plan) <= MaxFaults /\ s = InitW(Cfg(plan))
        /\ hist = <<>>

Take(step) == /\ Enabled(s, step)
              /\ s' = React(s, step, Deviations).s
              /\ hist' = Append(hist, step)

FaultsUsed == s.nf + Cardinality(s.cfg.plan)

Write    == \E n \in WriteSizes : /\ s.nw < MaxWrites /\ s.total + n <= MaxTotal
                                  /\ Take(<<"write", n, "-">>)
Shutdown == Take(<<"shutdown", 0, "-">>)
PartOk   == \E c \in 1..Len(s.calls) : Take(<<"done", c, "ok">>)
PartBad  == \E c \in 1..Len(s.calls), o \in PartFaults :
               FaultsUsed < MaxFaults /\ Take(<<"done", c, o>>)
Abort    == Take(<<"abort", 0, "-">>)
Drop     == Take(<<"drop", 0, "-">>)

Next == Write \/ Shutdown \/ PartOk \/ PartBad \/ Abort \/ Drop
Spec == Init /\ [][Next]_vars

\* ------------------------------------------------------------------ C31
InvNothingVisibleBeforeDone == NothingVisibleBeforeDone(s)
InvDoneEqualsConcat         == DoneEqualsConcat(s)
InvFailLeavesNothing        == FailLeavesNothing(s)
InvAbortLeavesNothing       == AbortLeavesNothing(s)
InvPendingCanProgress       == PendingCanProgress(s)
TypeOK == /\ s.st \in {"Started", "Creating", "InProgress", "PuttingSingle", "Completing", "Done"}
          /\ s.buf >= 0 /\ s.buf <= Part /\ s.cursor <= s.total
          /\ Len(s.fl) <= MaxPar + MaxResets + 1
          /\ s.pk \in {"none", "write", "shutdown"}

\* ------------------------------------------------------------------ scenario generation
GenPrint == (s.closed # "no") =>
               PrintT(<<"SCN", ToJson([steps |-> hist, plan |-> s.cfg.plan, maxpar |-> MaxPar,
                                       maxresets |-> MaxResets, mode |-> StoreMode,
                                       fin |-> <<s.st, s.err, s.done, s.nf, Len(s.calls)>>])>>)
StateView == s
=============================================================================
