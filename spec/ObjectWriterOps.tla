-------------------------- MODULE ObjectWriterOps --------------------------
(* Variable-free part of the ObjectWriter specification (property C31).

   Transcribed from rust/lance-io/src/object_writer.rs:
     poll_tasks / poll_write / poll_shutdown / abort / Drop, the upload states
     Started / CreatingUpload / InProgress / PuttingSingle / Completing / Done,
     the JoinSet of part uploads (bounded by LANCE_UPLOAD_CONCURRENCY), and the
     "connection reset by peer" retry of put_part (bounded by
     LANCE_CONN_RESET_RETRIES).
   The store is object_store's `ObjectStore::{put, put_multipart}` +
   `MultipartUpload::{put_part, complete, abort}`:  parts are numbered by the
   call order of put_part ("Upload the next part"); nothing is visible at the
   destination before `put` / `complete` succeeds.

   Granularity.  A writer is driven by one task.  One *step* of the model is an
   external stimulus followed by the reaction of the writer up to quiescence:
       <<"write", n, "-">>     write_all of n bytes      (API call)
       <<"shutdown", 0, "-">>  shutdown()                 (API call)
       <<"done", c, o>>        the store resolves the c-th put_part call with
                               outcome o \in {"ok","fail","reset"}; if an API call
                               is pending it is woken and continues
       <<"abort", 0, "-">>     abort()   (a pending API future is cancelled first)
       <<"drop", 0, "-">>      the writer is dropped (ditto)
   put_multipart / put / complete / abort resolve immediately with the outcome
   scripted in `plan`; put_part futures resolve when the scenario says so, hence
   any number of parts can be in flight and resolve in any order.

   The reaction `React(s, step, dev)` is a function: all nondeterminism is in the
   choice of the step.  `dev` is the set of enabled deviations (behaviour of the
   code as built that the intended design does not have).

   Sizes are bytes.  Object contents are described by segments <<start, len>> of
   the written byte stream (the driver writes a self-describing counter
   pattern), normalised by `Norm`.                                           *)
EXTENDS Naturals, Integers, Sequences, FiniteSets

Min(a, b) == IF a < b THEN a ELSE b

RemoveVal(seq, v) == SelectSeq(seq, LAMBDA e : e # v)

(* merge adjacent contiguous segments, drop empty ones *)
RECURSIVE NormAcc(_, _)
NormAcc(acc, rest) ==
  IF rest = <<>> THEN acc
  ELSE LET h == Head(rest) IN
       IF h[2] = 0 THEN NormAcc(acc, Tail(rest))
       ELSE IF acc # <<>> /\ acc[Len(acc)][1] >= 0 /\ h[1] >= 0
               /\ acc[Len(acc)][1] + acc[Len(acc)][2] = h[1]
            THEN NormAcc([acc EXCEPT ![Len(acc)] = <<@[1], @[2] + h[2]>>], Tail(rest))
            ELSE NormAcc(Append(acc, h), Tail(rest))
Norm(segs) == NormAcc(<<>>, segs)

(***************************************************************************)
(* State of one writer and of its destination in the store.                *)
(*  cfg      [part, maxpar, maxresets, mode, plan]                         *)
(*           mode "order": complete() concatenates the successfully put    *)
(*             parts in put_part call order (object_store InMemory/Local); *)
(*           mode "strict": complete() additionally fails with "Missing    *)
(*             part" unless every put_part call succeeded (object_store    *)
(*             client::parts::Parts::finish, used by S3 / GCS / Azure)     *)
(*           plan \subseteq {"mpu","put","complete"}: immediate calls that *)
(*             fail (without effect)                                       *)
(*  st       upload state of the writer (name of the Rust enum variant)    *)
(*  closed   "no" | "aborted" | "dropped"                                  *)
(*  err      "none" or the class of the error an API call returned         *)
(*  buf      bytes in the part buffer;  cursor  bytes accepted so far      *)
(*  fl       JoinSet: put_part calls whose task has not been reaped        *)
(*  fin      finished, unreaped tasks in completion order                  *)
(*  calls    put_part calls in call order: [start, len, res]               *)
(*           res \in "pending","ok","fail","reset","cancelled"             *)
(*  mpu      "none" | "open" | "completed" | "aborted"                     *)
(*  vis/dest is there an object at the destination, and its contents       *)
(*  pk/prem  pending API call ("none","write","shutdown"), bytes remaining *)
(*  done     shutdown() returned Ok;  size  the size it reported           *)
(*  total    ghost: bytes handed to write_all so far; nw, nf: counters     *)
(***************************************************************************)
InitW(cfg) ==
  [cfg |-> cfg, st |-> "Started", closed |-> "no", err |-> "none", buf |-> 0, cursor |-> 0,
   resets |-> 0, fl |-> <<>>, fin |-> <<>>, calls |-> <<>>, mpu |-> "none",
   vis |-> FALSE, dest |-> <<>>, pk |-> "none", prem |-> 0, done |-> FALSE, size |-> -1,
   total |-> 0, nw |-> 0, nf |-> 0]

(* x = [s: state, out: store calls observed in this step, r: "ok"|"pending"|"err_*"] *)
Emit(x, call) == [x EXCEPT !.out = Append(@, call)]

(* Self::put_part: the store's put_part is called synchronously, the returned
   future is spawned into the JoinSet *)
SpawnPart(x, start, len) ==
  LET c == Len(x.s.calls) + 1 IN
  Emit([x EXCEPT !.s.calls = Append(@, [start |-> start, len |-> len, res |-> "pending"]),
                 !.s.fl = Append(@, c)],
       <<"put_part", c, Norm(<< <<start, len>> >>)>>)

(* poll_tasks, InProgress arm: reap finished part uploads in completion order *)
RECURSIVE Reap(_, _)
Reap(x, dev) ==
  IF x.r # "ok" \/ x.s.fin = <<>> THEN x
  ELSE LET s   == x.s
           c   == Head(s.fin)
           res == s.calls[c].res
           x1  == [x EXCEPT !.s.fin = Tail(@), !.s.fl = RemoveVal(@, c)]
       IN CASE res = "ok"   -> Reap(x1, dev)
            [] res = "fail" -> [x1 EXCEPT !.r = "err_part"]
            [] res = "reset" ->
                 IF s.resets < s.cfg.maxresets
                 THEN (* Intended: a part can only be submitted again if it keeps its
                         position in the object, i.e. no later put_part call has been
                         issued (the MultipartUpload API numbers parts by call order).
                         As built ("RetryAppendsPart"): the part is always put again,
                         i.e. it moves behind every part submitted in the meantime. *)
                      IF c = Len(s.calls) \/ "RetryAppendsPart" \in dev
                      THEN Reap(SpawnPart([x1 EXCEPT !.s.resets = @ + 1],
                                          s.calls[c].start, s.calls[c].len), dev)
                      ELSE [x1 EXCEPT !.r = "err_part"]
                 ELSE [x1 EXCEPT !.r = "err_reset_max"]
            [] OTHER -> [x1 EXCEPT !.r = "err_model"]

OkSegs(calls) ==
  LET idx == SelectSeq([i \in 1..Len(calls) |-> i], LAMBDA i : calls[i].res = "ok")
  IN Norm([j \in 1..Len(idx) |-> <<calls[idx[j]].start, calls[idx[j]].len>>])

(* poll_tasks *)
PollTasks(x, dev) ==
  IF x.r # "ok" THEN x
  ELSE LET s == x.s IN
  CASE s.st = "Creating" ->
         IF "mpu" \in s.cfg.plan
         THEN [Emit(x, <<"put_multipart", "fail">>) EXCEPT !.r = "err_mpu"]
         ELSE LET x1 == Emit([x EXCEPT !.s.st = "InProgress", !.s.mpu = "open"], <<"put_multipart", "ok">>)
                  x2 == SpawnPart(x1, s.cursor - s.buf, s.buf)
              IN Reap([x2 EXCEPT !.s.buf = 0], dev)
    [] s.st = "InProgress" -> Reap(x, dev)
    [] s.st = "PuttingSingle" ->
         IF "put" \in s.cfg.plan
         THEN [Emit(x, <<"put", Norm(<< <<0, s.buf>> >>), "fail">>) EXCEPT !.r = "err_put"]
         ELSE Emit([x EXCEPT !.s.st = "Done", !.s.vis = TRUE, !.s.dest = Norm(<< <<0, s.buf>> >>), !.s.buf = 0],
                   <<"put", Norm(<< <<0, s.buf>> >>), "ok">>)
    [] s.st = "Completing" ->
         IF "complete" \in s.cfg.plan
         THEN [Emit(x, <<"complete", "fail">>) EXCEPT !.r = "err_complete"]
         ELSE IF s.cfg.mode = "strict" /\ \E i \in 1..Len(s.calls) : s.calls[i].res # "ok"
         THEN [Emit(x, <<"complete", "missing">>) EXCEPT !.r = "err_missing"]
         ELSE Emit([x EXCEPT !.s.st = "Done", !.s.vis = TRUE, !.s.dest = OkSegs(s.calls),
                             !.s.mpu = "completed"], <<"complete", "ok">>)
    [] OTHER -> x

(* write_all(rem bytes): repeated poll_write until consumed, error or Pending *)
RECURSIVE WriteAll(_, _, _)
WriteAll(x, rem, dev) ==
  LET x1 == PollTasks(x, dev) IN
  IF x1.r # "ok" THEN x1
  ELSE LET s1 == x1.s
           k  == Min(s1.cfg.part - s1.buf, rem)
           x2 == [x1 EXCEPT !.s.buf = @ + k, !.s.cursor = @ + k]
           s2 == x2.s
           x3 == IF s2.buf = s2.cfg.part
                 THEN CASE s2.st = "Started" -> [x2 EXCEPT !.s.st = "Creating"]
                        [] s2.st = "InProgress" /\ Len(s2.fl) < s2.cfg.maxpar ->
                             [SpawnPart(x2, s2.cursor - s2.buf, s2.buf) EXCEPT !.s.buf = 0]
                        [] OTHER -> x2
                 ELSE x2
           x4 == PollTasks(x3, dev)
       IN IF x4.r # "ok" THEN x4
          ELSE IF k = 0 THEN [x4 EXCEPT !.r = "pending", !.s.pk = "write", !.s.prem = rem]
          ELSE IF rem = k THEN [x4 EXCEPT !.s.pk = "none", !.s.prem = 0]
          ELSE WriteAll(x4, rem - k, dev)

(* shutdown(): poll_shutdown loop *)
RECURSIVE Shut(_, _)
Shut(x, dev) ==
  LET x1 == PollTasks(x, dev) IN
  IF x1.r # "ok" THEN x1
  ELSE LET s == x1.s IN
  CASE s.st = "Done" -> [x1 EXCEPT !.s.done = TRUE, !.s.size = s.cursor, !.s.pk = "none"]
    [] s.st = "Started" -> Shut([x1 EXCEPT !.s.st = "PuttingSingle"], dev)
    [] s.st = "InProgress" ->
         IF s.buf > 0 /\ Len(s.fl) < s.cfg.maxpar
         THEN Shut([SpawnPart(x1, s.cursor - s.buf, s.buf) EXCEPT !.s.buf = 0], dev)
         ELSE IF s.fl = <<>> THEN Shut([x1 EXCEPT !.s.st = "Completing"], dev)
         ELSE [x1 EXCEPT !.r = "pending", !.s.pk = "shutdown"]
    [] OTHER -> [x1 EXCEPT !.r = "pending", !.s.pk = "shutdown"]

Close(x, how) ==
  LET s  == x.s
      x1 == IF s.st = "InProgress" /\ s.closed = "no"
            THEN Emit([x EXCEPT !.s.mpu = "aborted"], <<"abort">>) ELSE x
  IN [x1 EXCEPT !.s.closed = how, !.s.pk = "none", !.s.prem = 0, !.s.fl = <<>>, !.s.fin = <<>>,
                !.s.calls = [i \in 1..Len(s.calls) |->
                               IF s.calls[i].res = "pending" THEN [s.calls[i] EXCEPT !.res = "cancelled"]
                               ELSE s.calls[i]],
                !.r = "none"]

(* Is the step one the scenario generator may take in state s?  (API contract:
   one call at a time, nothing but abort/drop after an error or after shutdown) *)
Live(s) == s.closed = "no" /\ s.err = "none" /\ ~s.done
Enabled(s, step) ==
  LET op == step[1] IN
  CASE op = "write"    -> Live(s) /\ s.pk = "none" /\ step[2] > 0
    [] op = "shutdown" -> Live(s) /\ s.pk = "none"
    [] op = "done"     -> Live(s) /\ step[2] \in 1..Len(s.calls) /\ s.calls[step[2]].res = "pending"
                          /\ step[3] \in {"ok", "fail", "reset"}
    [] op = "abort"    -> s.closed = "no" /\ ~s.done
    [] op = "drop"     -> s.closed = "no"
    [] OTHER -> FALSE

(* The reaction.  Result: [s, out, r] with r \in "ok" | "pending" | "none" | "err_*" *)
React(s, step, dev) ==
  LET op == step[1]
      x0 == [s |-> s, out |-> <<>>, r |-> "ok"]
      finish(x) == IF x.r \in {"ok", "pending", "none"} THEN x
                ELSE [x EXCEPT !.s.err = x.r, !.s.pk = "none", !.s.prem = 0]
      resume(x) == CASE x.s.pk = "write"    -> finish(WriteAll(x, x.s.prem, dev))
                     [] x.s.pk = "shutdown" -> finish(Shut(x, dev))
                     [] OTHER -> [x EXCEPT !.r = "none"]
  IN CASE op = "write" ->
            finish(WriteAll([x0 EXCEPT !.s.total = @ + step[2], !.s.nw = @ + 1], step[2], dev))
       [] op = "shutdown" -> finish(Shut(x0, dev))
       [] op = "done" ->
            resume([x0 EXCEPT !.s.calls[step[2]].res = step[3], !.s.fin = Append(@, step[2]),
                              !.s.nf = IF step[3] = "ok" THEN @ ELSE @ + 1])
       [] op = "abort" -> Close(x0, "aborted")
       [] op = "drop"  -> Close(x0, "dropped")

(* what the driver records as the result of the API call *)
ApiOf(R) ==
  CASE R.r = "ok"      -> <<"ok", IF R.s.done THEN R.s.size ELSE R.s.cursor>>
    [] R.r = "pending" -> <<"pending">>
    [] R.r = "none"    -> <<"none">>
    [] OTHER           -> <<"err", R.r>>

(***************************************************************************)
(* Property C31 as state predicates.                                       *)
(***************************************************************************)
NothingVisibleBeforeDone(s) == s.vis => s.done
DoneEqualsConcat(s) == s.done => /\ s.vis
                                 /\ s.dest = Norm(<< <<0, s.total>> >>)
                                 /\ s.size = s.total
FailLeavesNothing(s)  == s.err # "none" => ~s.vis
AbortLeavesNothing(s) == (s.closed # "no" /\ ~s.done) => ~s.vis
(* a pending API call can always be woken by some part upload *)
PendingCanProgress(s) == (s.pk # "none" /\ s.closed = "no") =>
                            \E i \in 1..Len(s.fl) : s.calls[s.fl[i]].res = "pending"
(* informational, not part of C31: a multipart upload that is neither completed nor aborted *)
OrphanUpload(s) == s.closed # "no" /\ s.mpu = "open"
=============================================================================
