---------------------------- MODULE OffsetMapOps ----------------------------
(* Logical offset -> physical row position under a deletion vector
   (part (a) of property C15; reused by the take/scan model).

   Transcribed from rust/lance-core/src/utils/deletion.rs:
   `OffsetMapper::map_offset` maps the i-th *undeleted* row of a fragment
   (0-based) to its physical position.  Documented precondition: successive
   calls on one mapper pass monotonically increasing offsets (the caller,
   take.rs, sorts the requested offsets; equal offsets do occur).

   (1) the meaning: NthUndeleted(dv, i);
   (2) the constructive model: the binary search of map_offset with its
       state (left, last_diff) carried from one call to the next.  RowIdSeq.tla
       (Mode = "offmap") lets TLC check that (2) computes (1) for every
       deletion vector and every non-decreasing offset list.               *)
EXTENDS Naturals, Integers, Sequences, FiniteSets

\* dv is a finite set of deleted physical positions.  The deletion vector does not know how many
\* physical rows exist, so the mapping is total: rows past the last deletion are all live.
NthUndeleted(dv, i) ==
   CHOOSE m \in 0..(i + Cardinality(dv)) :
      m \notin dv /\ Cardinality({x \in 0..m : x \notin dv}) = i + 1
\* positions of the live rows among physical rows 0..n-1, ascending (what a full scan shows)
RECURSIVE LiveRowsR(_, _, _)
LiveRowsR(dv, m, n) == IF m >= n THEN <<>>
                       ELSE (IF m \in dv THEN <<>> ELSE <<m>>) \o LiveRowsR(dv, m+1, n)
LiveRows(dv, n) == LiveRowsR(dv, 0, n)

\* ---- map_offset as coded.  Mapper state st = <<left, last_diff>>.  Result <<mid, st'>>;
\* mid = -2 stands for a panic (assert_ne! failure or u32 underflow of right - left).
InitMapper == <<0, 0>>
RangeCard(dv, hiExcl) == Cardinality({x \in dv : x < hiExcl})
RECURSIVE MapLoop(_, _, _, _, _, _)
MapLoop(dv, left, right, mid, offset, fuel) ==
   IF fuel = 0 THEN <<-3, <<left, 0>>>>           \* no termination within the fuel: reported
   ELSE LET del == RangeCard(dv, mid + 1) IN
        IF mid = offset + del /\ mid \notin dv THEN <<mid, <<left, mid - offset>>>>
        ELSE IF mid < offset + del
        THEN IF left = mid + 1 \/ right < mid + 1 THEN <<-2, <<left, 0>>>>
             ELSE MapLoop(dv, mid + 1, right, (mid + 1) + ((right - (mid + 1)) \div 2), offset, fuel - 1)
        ELSE IF mid < left THEN <<-2, <<left, 0>>>>
             ELSE MapLoop(dv, left, mid, left + ((mid - left) \div 2), offset, fuel - 1)
MapOffsetC(dv, st, offset) ==
   MapLoop(dv, st[1], offset + Cardinality(dv), offset + st[2], offset, 64)

\* a whole call sequence on one mapper: the list of results
RECURSIVE MapAllR(_, _, _)
MapAllR(dv, st, offs) == IF offs = <<>> THEN <<>>
                         ELSE LET r == MapOffsetC(dv, st, Head(offs))
                              IN <<r[1]>> \o MapAllR(dv, r[2], Tail(offs))
MapAllC(dv, offs) == MapAllR(dv, InitMapper, offs)
MapAll(dv, offs) == [i \in DOMAIN offs |-> NthUndeleted(dv, offs[i])]
=============================================================================
