------------------------------- MODULE Pruning -------------------------------
(* Conservative pruning (C20, C29): zone-map / bloom-filter / n-gram indices and
   page statistics may only skip rows that cannot satisfy the predicate.

   Values.  A cell is a natural 0..K or NULL (= -1, Sql3VL).  The naturals are
   *model values*: the driver carries them into real columns through an
   order-preserving embedding chosen by the column kind,
     int    v |-> v + offset
     str    v |-> <<"", "a", "ab", "b", "ba", "c", "d">>[v]   (bytewise order)
     float  v |-> <<-inf, -1.5, -0.0, +0.0, 1.5, +inf, NaN>>[v]
   so Sql3VL's integer comparison is the reference for every kind.  For floats
   this fixes the ordering  -inf < -1.5 < -0 < +0 < 1.5 < +inf < NaN  with -0 # +0
   and NaN = NaN: the IEEE total order.  It was CALIBRATED against the unpruned
   scan of the implementation (arrow's comparison kernels, which datafusion
   filters use, implement totalOrder) and is then fixed here; the trace
   validator re-checks the calibration on every run (class "calibration").

   Design-level model, transcribed from the code:
     ZMStats / ZMEval        rust/lance-index/src/scalar/zonemap.rs
                             (ZoneMapIndexBuilder::update_stats/new_map, evaluate_zone_against_query)
     BloomEval               rust/lance-index/src/scalar/bloomfilter.rs (evaluate_block_against_query);
                             the filter is a set with the law  inserted => contained
     PageStats / Abs         rust/lance-file/src/previous/writer/statistics.rs (legacy page statistics)
                             and rust/lance/src/io/exec/pushdown_scan.rs (NullableInterval guarantees
                             + datafusion's simplifier)
     ToZM / ToBloom          rust/lance-index/src/scalar/expression.rs (SargableQueryParser,
                             BloomFilterQueryParser; inexact answers are AtMost, maybe_not refuses to
                             negate them, the scan rechecks everything it reads with the full filter)
     Trigrams / NgSearch     rust/lance-index/src/scalar/ngram.rs (tokenizer chain, search)
     Chunks / Entries        the zone builders' chunking of the training stream
                             (ZoneMapIndexBuilder::train / BloomFilterIndexBuilder::train, new_map / new_block)
     Candidates              rust/lance/src/io/exec/filtered_read.rs (apply_index_to_fragment)

   Laws (Mode = "laws", evaluated over ALL zones of <= MaxZone cells and all
   predicates of the grammar; invariants LawsC20 / LawsC29): ZoneMapSound,
   BloomSound, PageStatsSound (+ PageStatsWideningSound for truncated bounds),
   NgramSound.  State machine (Mode = "zone" / "ngram"): fragments are appended,
   rows deleted (a fragment without live rows disappears, ids are not reused),
   the index is built / optimised over the live rows, queries run; invariant
   IndexedScanEqualsFullScan (every query the machine could run now returns the
   rows of the full scan).

   Deviations (what the code does today where that differs from the design):
     "ZoneRangeFromCounts"    a zone claims [sum of earlier zone lengths, + number of
                              live rows) instead of the address range of its rows
     "FragmentGapNotDetected" a fragment boundary is only seen when the id grows by 1
     "StatsIgnoreNaN"         legacy float statistics leave NaN out of min/max
     "NgramNoTrigramIsEmpty"  a query of >= 3 bytes without any indexable trigram
                              answers AtMost({}) instead of "know nothing"
     "AtLeastReadsOnlyGuaranteed"  the reader treats AtLeast(S) as "read only S"
     "ConstantPageIgnoresNulls"    a page with nulls whose other values are all equal is
                              simplified as if it had no nulls                            *)
EXTENDS Sql3VL, TLC, Json, SequencesExt

CONSTANTS Kind,        \* "int" | "str" | "float"
          K,           \* model values are 0..K  (float: K = 6)
          MaxZone,     \* laws: zones of 1..MaxZone cells
          Mode,        \* "laws" | "zone" | "ngram"
          IType,       \* machine: "zonemap" | "bloom"
          RZ,          \* machine: rows per zone
          MaxFrags, MaxRows, MaxSteps,
          Alphabet, MaxStr,       \* n-gram: characters, string length
          Deviations

Vals  == 0..K
Cells == Vals \cup {NULL}
BOT == -2            \* below every value (and NULL): an open lower bound
TOP == 1000          \* above every value
FNEGINF == 0  FNEG == 1  FNEGZERO == 2  FPOSZERO == 3  FPOS == 4  FPOSINF == 5  FNAN == 6
IsNaN(v) == Kind = "float" /\ v = FNAN
ASSUME Kind = "float" => K = 6

SetMin(S) == CHOOSE x \in S : \A y \in S : x <= y
SetMax(S) == CHOOSE x \in S : \A y \in S : x >= y
Row(v) == [val |-> v]

ZonesOf(n) == UNION {[1..k -> Cells] : k \in 1..n}
NonNull(z) == {z[i] : i \in DOMAIN z} \ {NULL}
NullCount(z) == Cardinality({i \in DOMAIN z : z[i] = NULL})
NanCount(z) == Cardinality({i \in DOMAIN z : IsNaN(z[i])})

\* ---------------------------------------------------------------- predicates
Lits == Vals
PAtoms == Atoms({"val"}, Lits)
Small == {<<"cmp", "val", "=", 1>>, <<"cmp", "val", "<", 2>>, <<"isnull", "val">>, <<"cmp", "val", ">=", 2>>,
          <<"cmp", "val", "<>", 0>>}
Preds == Depth2({"val"}, Lits, Small)
HasNot(p) == p[1] = "not" \/ (p[1] = "cmp" /\ p[3] = "<>") \/ p[1] = "notnull"
             \/ (p[1] \in {"and", "or"} /\ (p[2][1] = "not" \/ p[3][1] = "not"))

\* ------------------------------------------------------------ zone map (C20, C29)
\* min / max by the accumulators (total order, NaN is the largest value and takes part;
\* an all-null zone has NULL bounds; NULL = -1 sorts below every value exactly as
\* ScalarValue's None < Some)
ZMStats(z) == [min |-> IF NonNull(z) = {} THEN NULL ELSE SetMin(NonNull(z)),
               max |-> IF NonNull(z) = {} THEN NULL ELSE SetMax(NonNull(z)),
               nulls |-> NullCount(z), nans |-> NanCount(z), len |-> Len(z)]

\* index queries: <<"isnull">> <<"eq", v>> <<"isin", <<v..>>>> <<"range", lk, lo, hk, hi>>, kinds "unb" "inc" "exc"
ZMIn(st, v) == IF v = NULL THEN st.nulls > 0
               ELSE IF IsNaN(v) THEN st.nans > 0
               ELSE v >= st.min /\ v <= st.max
ZMEval(st, q) ==
  CASE q[1] = "isnull" -> st.nulls > 0
    [] q[1] = "eq" -> IF q[2] = NULL THEN st.nulls > 0
                      ELSE IF IsNaN(q[2]) THEN st.nans > 0
                      ELSE q[2] >= st.min /\ (IF IsNaN(st.max) THEN TRUE ELSE q[2] <= st.max)
    [] q[1] = "isin" -> \E i \in DOMAIN q[2] : ZMIn(st, q[2][i])
    [] q[1] = "range" ->
         LET lk == q[2]  lo == q[3]  hk == q[4]  hi == q[5]
             startCheck == CASE lk = "unb" -> TRUE
                             [] lk = "inc" -> IF IsNaN(st.max) THEN TRUE ELSE st.max >= lo
                             [] lk = "exc" -> st.max > lo
             endCheck == CASE hk = "unb" -> TRUE
                           [] hk = "inc" -> st.min <= hi
                           [] hk = "exc" -> st.min < hi
         IN IF lk = "inc" /\ IsNaN(lo) THEN st.nans > 0
            ELSE IF lk = "exc" /\ IsNaN(lo) THEN FALSE
            ELSE IF hk = "inc" /\ IsNaN(hi) THEN st.nans > 0 \/ st.min <= hi
            ELSE IF hk = "exc" /\ IsNaN(hi) THEN TRUE
            ELSE startCheck /\ endCheck

\* what an index query means on a cell (the obligation of a search)
QHolds(q, v) ==
  CASE q[1] = "isnull" -> v = NULL
    [] q[1] = "eq" -> v # NULL /\ q[2] # NULL /\ v = q[2]
    [] q[1] = "isin" -> v # NULL /\ \E i \in DOMAIN q[2] : q[2][i] # NULL /\ q[2][i] = v
    [] q[1] = "range" -> /\ v # NULL
                         /\ (q[2] = "unb" \/ (q[2] = "inc" /\ v >= q[3]) \/ (q[2] = "exc" /\ v > q[3]))
                         /\ (q[4] = "unb" \/ (q[4] = "inc" /\ v <= q[5]) \/ (q[4] = "exc" /\ v < q[5]))

\* SargableQueryParser: which atoms reach a zone map, and as which query (<<"none">> = refine only).
\* <> / IS NOT NULL would need the negation of an inexact answer: maybe_not gives up.
ToZM(p) ==
  CASE p[1] = "cmp" -> IF p[4] = NULL THEN <<"none">>
                       ELSE CASE p[3] = "="  -> <<"eq", p[4]>>
                              [] p[3] = "<"  -> <<"range", "unb", 0, "exc", p[4]>>
                              [] p[3] = "<=" -> <<"range", "unb", 0, "inc", p[4]>>
                              [] p[3] = ">"  -> <<"range", "exc", p[4], "unb", 0>>
                              [] p[3] = ">=" -> <<"range", "inc", p[4], "unb", 0>>
                              [] OTHER -> <<"none">>
    [] p[1] = "in" -> IF \E i \in DOMAIN p[3] : p[3][i] = NULL THEN <<"none">> ELSE <<"isin", p[3]>>
    [] p[1] = "between" -> IF p[3] = NULL \/ p[4] = NULL THEN <<"none">> ELSE <<"range", "inc", p[3], "inc", p[4]>>
    [] p[1] = "isnull" -> <<"isnull">>
    [] OTHER -> <<"none">>

\* ------------------------------------------------------------------ bloom filter
\* a filter is the set of values it answers "maybe" for; the only law: inserted => contained
BloomEval(f, hasNull, q) ==
  CASE q[1] = "isnull" -> hasNull
    [] q[1] = "eq" -> IF q[2] = NULL THEN hasNull ELSE q[2] \in f
    [] q[1] = "isin" -> \E i \in DOMAIN q[2] : IF q[2][i] = NULL THEN hasNull ELSE q[2][i] \in f
ToBloom(p) ==
  CASE p[1] = "cmp" -> IF p[3] = "=" THEN <<"eq", p[4]>> ELSE <<"none">>
    [] p[1] = "in" -> <<"isin", p[3]>>
    [] p[1] = "isnull" -> <<"isnull">>
    [] OTHER -> <<"none">>
FpLaw == IF K <= 3 THEN SUBSET Vals ELSE {{}, Vals} \cup {{v} : v \in Vals}
Filters(z) == {NonNull(z) \cup fp : fp \in FpLaw}

\* ------------------------------------------------- legacy page statistics (C29)
\* what the legacy writer records for one page (row group)
PageStats(z) ==
  LET nn == NonNull(z)
      fin == IF "StatsIgnoreNaN" \in Deviations THEN {v \in nn : ~IsNaN(v)} ELSE nn
  IN IF Kind = "float"
     THEN IF fin = {} THEN [min |-> IF nn = {} THEN FNEGINF ELSE BOT, max |-> IF nn = {} THEN FPOSINF ELSE TOP, nulls |-> NullCount(z), len |-> Len(z)]
          ELSE LET mn == SetMin(fin)  mx == SetMax(fin) IN
               [min |-> IF mn \in {FNEGZERO, FPOSZERO} THEN FNEGZERO ELSE mn,
                max |-> IF mx \in {FNEGZERO, FPOSZERO} THEN FPOSZERO ELSE mx,
                nulls |-> NullCount(z), len |-> Len(z)]
     ELSE IF nn = {} THEN [min |-> BOT, max |-> TOP, nulls |-> NullCount(z), len |-> Len(z)]
          ELSE [min |-> SetMin(nn), max |-> SetMax(nn), nulls |-> NullCount(z), len |-> Len(z)]
\* as built (StatsIgnoreNaN): an all-NaN page records (-inf, +inf)
PageStatsAsBuilt(z) ==
  LET st == PageStats(z) IN
  IF Kind = "float" /\ "StatsIgnoreNaN" \in Deviations /\ NonNull(z) # {} /\ {v \in NonNull(z) : ~IsNaN(v)} = {}
  THEN [st EXCEPT !.min = FNEGINF, !.max = FPOSINF] ELSE st
\* statistics may be widened (truncated string bounds): any wider interval is acceptable
Widenings(st) == {[st EXCEPT !.min = lo, !.max = hi] : lo \in {BOT} \cup {v \in Vals : v <= st.min}, hi \in {TOP} \cup {v \in Vals : v >= st.max}}

\* as built (ConstantPageIgnoresNulls): a page with nulls whose non-null values are all equal has its column
\* replaced by that value (NullableInterval::single_value answers for MaybeNull as for NotNull)
IvKind(st) == IF st.nulls = 0 THEN "notnull" ELSE IF st.nulls = st.len THEN "null"
              ELSE IF "ConstantPageIgnoresNulls" \in Deviations /\ st.min = st.max THEN "notnull" ELSE "maybenull"
\* abstract value of a predicate on a page: "T" / "F" / "N" = every row evaluates to that; "?" = not decided
AbsCmp(st, op, l) ==
  IF l = NULL THEN "N"
  ELSE CASE IvKind(st) = "null" -> "N"
         [] IvKind(st) = "maybenull" -> "?"
         [] OTHER ->
            LET lo == st.min  hi == st.max IN
            CASE op = "="  -> IF l < lo \/ l > hi THEN "F" ELSE IF lo = hi /\ lo = l THEN "T" ELSE "?"
              [] op = "<>" -> IF l < lo \/ l > hi THEN "T" ELSE IF lo = hi /\ lo = l THEN "F" ELSE "?"
              [] op = "<"  -> IF hi < l THEN "T" ELSE IF lo >= l THEN "F" ELSE "?"
              [] op = "<=" -> IF hi <= l THEN "T" ELSE IF lo > l THEN "F" ELSE "?"
              [] op = ">"  -> IF lo > l THEN "T" ELSE IF hi <= l THEN "F" ELSE "?"
              [] op = ">=" -> IF lo >= l THEN "T" ELSE IF hi < l THEN "F" ELSE "?"
AbsAnd(a, b) == IF a = "F" \/ b = "F" THEN "F" ELSE IF a = "?" \/ b = "?" THEN "?" ELSE And3(a, b)
AbsOr(a, b)  == IF a = "T" \/ b = "T" THEN "T" ELSE IF a = "?" \/ b = "?" THEN "?" ELSE Or3(a, b)
AbsNot(a) == IF a = "?" THEN "?" ELSE Not3(a)
RECURSIVE AbsIn(_, _, _)
AbsIn(st, lits, i) == IF i > Len(lits) THEN "F" ELSE AbsOr(AbsCmp(st, "=", lits[i]), AbsIn(st, lits, i + 1))
RECURSIVE Abs(_, _)
Abs(st, p) ==
  CASE p[1] = "true" -> "T"
    [] p[1] = "false" -> "F"
    [] p[1] = "cmp" -> AbsCmp(st, p[3], p[4])
    [] p[1] = "in" -> AbsIn(st, p[3], 1)
    [] p[1] = "between" -> AbsAnd(AbsCmp(st, ">=", p[3]), AbsCmp(st, "<=", p[4]))
    [] p[1] = "isnull" -> IF IvKind(st) = "notnull" THEN "F" ELSE IF IvKind(st) = "null" THEN "T" ELSE "?"
    [] p[1] = "notnull" -> IF IvKind(st) = "notnull" THEN "T" ELSE IF IvKind(st) = "null" THEN "F" ELSE "?"
    [] p[1] = "and" -> AbsAnd(Abs(st, p[2]), Abs(st, p[3]))
    [] p[1] = "or" -> AbsOr(Abs(st, p[2]), Abs(st, p[3]))
    [] p[1] = "not" -> AbsNot(Abs(st, p[2]))
CanSkip(st, p) == Abs(st, p) \in {"F", "N"}
MayMatch(st, p) == ~CanSkip(st, p)

\* --------------------------------------------------------------------- n-gram
NULLSTR == <<"NULL">>
Strs(n) == UNION {[1..k -> Alphabet] : k \in 0..n}
Fold(c) == CASE c = "B" -> "b" [] c = "A" -> "a" [] c = "F" -> "e" [] OTHER -> c   \* LowerCaser, AsciiFoldingFilter
Indexable(c) == c # "U"                              \* AlphaNumOnlyFilter: ASCII letters and digits only
Bytes(c) == CASE c = "U" -> 3 [] c = "F" -> 2 [] OTHER -> 1
RECURSIVE ByteLen(_)
ByteLen(s) == IF s = <<>> THEN 0 ELSE Bytes(Head(s)) + ByteLen(Tail(s))
Norm(s) == [i \in DOMAIN s |-> Fold(s[i])]
AllTrigrams(s) == {SubSeq(Norm(s), i, i + 2) : i \in 1..(Len(s) - 2)}
Trigrams(s) == {t \in AllTrigrams(s) : \A i \in 1..3 : Indexable(t[i])}
HasSub(s, q) == \E i \in 0..(Len(s) - Len(q)) : SubSeq(s, i + 1, i + Len(q)) = q
\* rows: a sequence of strings (NULLSTR = NULL); the index: trigram -> set of row positions
Posting(rows, t) == {r \in DOMAIN rows : rows[r] # NULLSTR /\ t \in Trigrams(rows[r])}
IndexedTrigrams(rows) == UNION {Trigrams(rows[r]) : r \in {x \in DOMAIN rows : rows[x] # NULLSTR}}
\* search answer: <<kind, set>>; "all" = nothing is known, every row must be rechecked
NgSearch(rows, q) ==
  IF "NgramNoTrigramIsEmpty" \in Deviations
  THEN IF ByteLen(q) < 3 THEN <<"atleast", {}>>
       ELSE IF \E t \in Trigrams(q) : t \notin IndexedTrigrams(rows) THEN <<"exact", {}>>
       ELSE <<"atmost", {r \in DOMAIN rows : \A t \in Trigrams(q) : r \in Posting(rows, t)} \cap
                        (IF Trigrams(q) = {} THEN {} ELSE DOMAIN rows)>>
  ELSE IF Trigrams(q) = {} THEN <<"atleast", {}>>
       ELSE <<"atmost", {r \in DOMAIN rows : \A t \in Trigrams(q) : r \in Posting(rows, t)}>>
\* rows the reader looks at for an answer
NgCandidates(rows, ans) ==
  CASE ans[1] = "atleast" -> IF "AtLeastReadsOnlyGuaranteed" \in Deviations THEN ans[2] ELSE DOMAIN rows
    [] OTHER -> ans[2]
NgMatches(rows, q) == {r \in DOMAIN rows : rows[r] # NULLSTR /\ HasSub(rows[r], q)}
NgResult(rows, q) == {r \in NgCandidates(rows, NgSearch(rows, q)) : rows[r] # NULLSTR /\ HasSub(rows[r], q)}

\* ------------------------------------------------------------------------ laws
ZoneMapSound(mz) ==
  \A z \in ZonesOf(mz) : \A p \in PAtoms :
     LET q == ToZM(p) IN
     q[1] # "none" =>
        /\ \A i \in DOMAIN z : Holds(p, Row(z[i])) => QHolds(q, z[i])       \* the query covers the predicate
        /\ ~ZMEval(ZMStats(z), q) => \A i \in DOMAIN z : ~QHolds(q, z[i])   \* a skipped zone has no match
BloomSound(mz) ==
  \A z \in ZonesOf(mz) : \A p \in PAtoms :
     LET q == ToBloom(p) IN
     q[1] # "none" => \A f \in Filters(z) :
        ~BloomEval(f, NullCount(z) > 0, q) => \A i \in DOMAIN z : ~Holds(p, Row(z[i]))
\* strong form (needed under NOT): a decided abstract value is the value of every row
PageStatsSound(mz) ==
  \A z \in ZonesOf(mz) : \A p \in Preds :
     LET a == Abs(PageStatsAsBuilt(z), p) IN
     a # "?" => \A i \in DOMAIN z : Eval(p, Row(z[i])) = a
PageStatsWideningSound(mz) ==
  \A z \in ZonesOf(IF mz > 2 THEN 2 ELSE mz) : \A st \in Widenings(PageStats(z)) : \A p \in PAtoms :
     CanSkip(st, p) => \A i \in DOMAIN z : ~Holds(p, Row(z[i]))
NgramSound(mz) ==
  \A s \in Strs(mz) : \A q \in Strs(mz) :
     /\ HasSub(s, q) => Trigrams(q) \subseteq Trigrams(s)
     /\ NgResult(<<s>>, q) = NgMatches(<<s>>, q)
NgramNullSound(mz) == \A q \in Strs(mz) : NgResult(<<NULLSTR>>, q) = {}

\* ------------------------------------------------------------ the state machine
(* A table is a sequence of fragments [id, cells]; addresses are <<id, offset>>;
   `del` holds deleted addresses.  The index is a set of entries
   [fid, lo, hi, st, f]: the zone claims addresses <<fid, lo..hi-1>>, was
   computed from the cells listed in `st` (zone-map statistics) / `f` (bloom
   filter); `cov` is the set of fragment ids the index covers.               *)
VARIABLES frags, del, idx, cov, hasIdx, steps, last, strs,
          nid     \* next fragment id (ids are never reused)
vars == <<frags, del, idx, cov, hasIdx, steps, last, strs, nid>>

Live(fs) == \* live rows in address order: sequence of [fid, off, v]
  LET RECURSIVE Go(_)
      Go(i) == IF i > Len(fs) THEN <<>>
               ELSE SelectSeq([o \in 1..Len(fs[i].cells) |-> [fid |-> fs[i].id, off |-> o - 1, v |-> fs[i].cells[o]]],
                              LAMBDA r : <<r.fid, r.off>> \notin del) \o Go(i + 1)
  IN Go(1)
LiveRows == {Live(frags)[i] : i \in DOMAIN Live(frags)}

\* chunking of a training stream into zones of RZ rows, cut at fragment boundaries
Boundary(cur, next) == IF "FragmentGapNotDetected" \in Deviations THEN next = cur + 1 ELSE next # cur
RECURSIVE Chunks(_, _, _, _)
Chunks(s, i, cur, acc) ==   \* acc: the open chunk (sequence of rows); cur: fragment the builder believes it is in
  IF i > Len(s) THEN (IF acc = <<>> THEN <<>> ELSE <<acc>>)
  ELSE IF acc # <<>> /\ Boundary(cur, s[i].fid) THEN <<acc>> \o Chunks(s, i, s[i].fid, <<>>)
  ELSE IF acc = <<>> /\ Boundary(cur, s[i].fid) THEN Chunks(s, i, s[i].fid, <<>>)
  ELSE IF Len(acc) + 1 = RZ THEN <<Append(acc, s[i])>> \o Chunks(s, i + 1, cur, <<>>)
  ELSE Chunks(s, i + 1, cur, Append(acc, s[i]))
\* as built, the first fragment id is taken from the first row
ChunksOf(s) == IF s = <<>> THEN <<>> ELSE Chunks(s, 1, s[1].fid, <<>>)

Entries(s, fp) ==   \* the index entries for a training stream
  LET cs == ChunksOf(s)
      Cells2(c) == [i \in DOMAIN c |-> c[i].v]
      LenBefore(k) == LET RECURSIVE Sum(_)
                          Sum(j) == IF j = 0 THEN 0 ELSE (IF cs[j][1].fid = cs[k][1].fid THEN Len(cs[j]) ELSE 0) + Sum(j - 1)
                      IN Sum(k - 1)
  IN {[fid |-> cs[k][1].fid,
       lo |-> IF "ZoneRangeFromCounts" \in Deviations THEN LenBefore(k) ELSE cs[k][1].off,
       hi |-> IF "ZoneRangeFromCounts" \in Deviations THEN LenBefore(k) + Len(cs[k]) ELSE cs[k][Len(cs[k])].off + 1,
       st |-> ZMStats(Cells2(cs[k])),
       f  |-> NonNull(Cells2(cs[k])) \cup fp,
       hasNull |-> NullCount(Cells2(cs[k])) > 0] : k \in DOMAIN cs}

FragIds == {frags[i].id : i \in DOMAIN frags}
NextId == nid
MCells == Cells
TotalRows == LET RECURSIVE S(_)
                 S(i) == IF i = 0 THEN 0 ELSE Len(frags[i].cells) + S(i - 1) IN S(Len(frags))

AppendFrag(cells) ==
  /\ Len(frags) < MaxFrags /\ TotalRows + Len(cells) <= MaxRows
  /\ frags' = Append(frags, [id |-> NextId, cells |-> cells])
  /\ nid' = nid + 1
  /\ UNCHANGED <<del, idx, cov, hasIdx, strs>>
  /\ last' = [op |-> "append"]
DeleteRow(a) ==
  /\ a \notin del
  \* a fragment without live rows leaves the table (its id is not reused); what the state still
  \* says about it (deleted addresses, index entries, coverage) can no longer be observed and is dropped
  /\ LET d2 == del \cup {a}
         keep == SelectSeq(frags, LAMBDA fr : \E o \in 1..Len(fr.cells) : <<fr.id, o - 1>> \notin d2)
         ids == {keep[i].id : i \in DOMAIN keep}
     IN /\ frags' = keep
        /\ del' = {x \in d2 : x[1] \in ids}
        /\ idx' = {e \in idx : e.fid \in ids}
        /\ cov' = cov \cap ids
  /\ UNCHANGED <<hasIdx, strs, nid>>
  /\ last' = [op |-> "delete"]
Build(fp) ==
  /\ frags # <<>>
  /\ idx' = Entries(Live(frags), fp)
  /\ cov' = FragIds
  /\ hasIdx' = TRUE
  /\ UNCHANGED <<frags, del, strs, nid>>
  /\ last' = [op |-> "index"]
Optimize(fp) ==
  /\ hasIdx /\ FragIds \ cov # {}
  /\ idx' = idx \cup Entries(SelectSeq(Live(frags), LAMBDA r : r.fid \notin cov), fp)
  /\ cov' = cov \cup FragIds
  /\ UNCHANGED <<frags, del, hasIdx, strs, nid>>
  /\ last' = [op |-> "optimize"]

EntryMay(e, q) == IF IType = "zonemap" THEN ZMEval(e.st, q) ELSE BloomEval(e.f, e.hasNull, q)
ToQ(p) == IF IType = "zonemap" THEN ToZM(p) ELSE ToBloom(p)
\* addresses the scan reads for predicate p: claimed ranges of the zones that may match,
\* plus every fragment the index does not cover; everything read is rechecked with p
\* (lr: the live rows, passed in so that they are computed once per state)
Candidates(lr, p) ==
  LET q == ToQ(p) IN
  IF ~hasIdx \/ q[1] = "none" THEN {<<r.fid, r.off>> : r \in lr}
  ELSE LET may == {e \in idx : EntryMay(e, q)} IN
       {<<r.fid, r.off>> : r \in {x \in lr : x.fid \notin cov \/ \E e \in may : e.fid = x.fid /\ e.lo <= x.off /\ x.off < e.hi}}
Matches(lr, p) == {<<r.fid, r.off>> : r \in {x \in lr : Holds(p, Row(x.v))}}
Result(lr, p) == Candidates(lr, p) \cap Matches(lr, p)
MLits == Vals
MPreds == Atoms({"val"}, MLits)
Query(p) ==
  /\ frags # <<>>
  /\ last' = [op |-> "query", pred |-> p]
  /\ UNCHANGED <<frags, del, idx, cov, hasIdx, strs, nid>>

\* n-gram machine: rows are strings; the index covers the first NgCov rows (cov = {n})
NgAdd(s) == /\ Len(strs) < MaxRows /\ strs' = Append(strs, s) /\ last' = [op |-> "append"]
            /\ UNCHANGED <<frags, del, idx, cov, hasIdx, nid>>
NgBuild == /\ strs # <<>> /\ hasIdx' = TRUE /\ cov' = {Len(strs)} /\ last' = [op |-> "index"]
           /\ UNCHANGED <<frags, del, idx, strs, nid>>
NgCov == IF hasIdx THEN SetMax(cov) ELSE 0
NgScan(q) == IF hasIdx
             THEN NgResult(SubSeq(strs, 1, NgCov), q) \cup {r \in (NgCov + 1)..Len(strs) : strs[r] # NULLSTR /\ HasSub(strs[r], q)}
             ELSE NgMatches(strs, q)
NgQuery(q) ==
  /\ strs # <<>>
  /\ last' = [op |-> "query", pred |-> q]
  /\ UNCHANGED <<frags, del, idx, cov, hasIdx, strs, nid>>

FpChoices == IF IType = "bloom" THEN {{}, Vals} ELSE {{}}
Init == /\ frags = <<>> /\ del = {} /\ idx = {} /\ cov = {} /\ hasIdx = FALSE /\ steps = 0
        /\ last = [op |-> "init"] /\ strs = <<>> /\ nid = 0
Tick(m) == Mode = m /\ steps < MaxSteps /\ steps' = steps + 1
N_Append == Tick("zone") /\ nid <= MaxFrags /\ \E n \in 1..(RZ + 1) : \E cells \in [1..n -> MCells] : AppendFrag(cells)
N_Delete == Tick("zone") /\ \E r \in LiveRows : DeleteRow(<<r.fid, r.off>>)
N_Build == Tick("zone") /\ \E fp \in FpChoices : Build(fp)
N_Optimize == Tick("zone") /\ \E fp \in FpChoices : Optimize(fp)
N_Query == Tick("zone") /\ \E p \in MPreds : Query(p)
N_NgAdd == Tick("ngram") /\ \E s \in Strs(MaxStr) \cup {NULLSTR} : NgAdd(s)
N_NgBuild == Tick("ngram") /\ NgBuild
N_NgQuery == Tick("ngram") /\ \E q \in Strs(MaxStr) : NgQuery(q)
Next == N_Append \/ N_Delete \/ N_Build \/ N_Optimize \/ N_Query \/ N_NgAdd \/ N_NgBuild \/ N_NgQuery
Spec == Init /\ [][Next]_vars
\* the step counter and the last query are not part of the table state
view == <<frags, del, idx, cov, hasIdx, strs, nid>>

\* every query the machine could run now returns what the full scan returns
IndexedScanEqualsFullScan ==
  /\ (Mode = "zone" /\ frags # <<>>) => LET lr == LiveRows IN \A p \in MPreds : Result(lr, p) = Matches(lr, p)
  /\ (Mode = "ngram" /\ strs # <<>>) => \A q \in Strs(MaxStr) : NgScan(q) = NgMatches(strs, q)
\* (the laws take a parameter and Laws* mention a variable so that TLC does not evaluate them eagerly as constants)
LawsC20 == (Mode = "laws" /\ steps = 0) =>
          /\ (Kind # "text" => ZoneMapSound(MaxZone) /\ BloomSound(MaxZone))
          /\ (Kind = "text" => NgramSound(MaxStr) /\ NgramNullSound(MaxStr))
LawsC29 == (Mode = "laws" /\ steps = 0 /\ Kind # "text") =>
          /\ ZoneMapSound(MaxZone) /\ PageStatsSound(MaxZone)
          /\ (K <= 3 => PageStatsWideningSound(MaxZone))
Laws == LawsC20 /\ LawsC29
TypeOK == /\ \A i \in DOMAIN frags : \A o \in DOMAIN frags[i].cells : frags[i].cells[o] \in Cells
          /\ \A e \in idx : e.lo <= e.hi

\* ------------------------------------------------------------ scenario export
PredList == (steps = 0) => PrintT(<<"PREDS", ToJson(Preds)>>)
AtomList == (steps = 0) => PrintT(<<"ATOMS", ToJson(PAtoms)>>)
StrList == (steps = 0) => PrintT(<<"STRS", ToJson(Strs(MaxStr))>>)
=============================================================================
