------------------------------- MODULE RepDef -------------------------------
(* State machine over the operators of RepDefOps (property C27).

   A run picks a nesting shape, fills the column layer by layer (outer to
   inner; every validity / offsets buffer the structural encoders could hand
   to RepDefBuilder), optionally a second batch of the same shape, then
   serialises it layer by layer the way SerializerContext does, and finally
   unravels it layer by layer (inner to outer) the way the decoders drive
   CompositeRepDefUnraveler -- as one page, as two batches serialised
   together, or as two pages read together.

   TLC checks on every reachable state that
     * the operational serializer produces exactly the documented levels
       (LevelsMatchScheme),
     * reading those levels row by row gives the rows' items (RowTranslation),
     * unravelling gives back the logical value (RoundTrip).
   The filled columns are the scenario universe: with PrintScn = TRUE every one
   is printed once as <<"SCN", json>> for the implementation run.            *)
EXTENDS RepDefOps, Json

CONSTANTS Deviations,    \* subset of DeviationNames; {} = the intended design
          Depths,        \* allowed numbers of layers above the leaf, e.g. {0, 1, 2, 3}
          Tops,          \* allowed outer-most kinds (to split the universe over several TLC runs)
          MaxF,          \* at most this many fixed-size-list layers
          MaxRows,       \* rows per batch
          MaxLen,        \* list length 0..MaxLen
          MaxGarbage,    \* hidden children behind a null list 0..MaxGarbage
          MaxTotal,      \* bound on the number of slots of all layers of all batches together
          Validity,      \* "any" | "none" (sub-universe of columns without any validity buffer)
          ZeroLenBitmaps,\* may a layer without slots carry an (empty) validity bitmap
          Mode,          \* "single" | "pair" | "directed" (the explicit columns RepDefOps!DirectedCols)
          PrintScn          \* print scenarios

VARIABLES phase,   \* "pick" | "fill" | "ser" | "unr" | "done"
          parts,   \* the batches (1 or 2 columns), possibly still incomplete
          how,     \* "one" | "concat" | "pages"
          pages,   \* what is serialised: one column per page
          ctx,     \* serializer context per page
          lv,      \* serialised levels per page
          us,      \* unraveler per page
          out,     \* the unravelled column
          step     \* layer counter of the ser / unr phases
vars == <<phase, parts, how, pages, ctx, lv, us, out, step>>

\* nesting shapes: any stack of list / struct / fixed-size-list layers above the leaf item.
\* Lists and structural fixed-size lists are not combined: RepDefUnraveler::decimate is `todo!()` as
\* soon as repetition levels exist ("Not yet supported FSL<...List<...>>"), and no encoder calls add_fsl.
Shapes == {Append(s, "I") : s \in {t \in UNION {[1..d -> {"L", "S", "F"}] : d \in Depths} :
                                      /\ Cardinality({i \in DOMAIN t : t[i] = "F"}) <= MaxF
                                      /\ ~((\E i \in DOMAIN t : t[i] = "F") /\ (\E i \in DOMAIN t : t[i] = "L"))
                                      /\ (IF Len(t) = 0 THEN "I" ELSE t[1]) \in Tops}}

EmptySc(ks) == [kinds |-> ks, hasv |-> <<>>, v |-> <<>>, lens |-> <<>>]
Filled(sc)  == Len(sc.v)
Complete(sc) == Filled(sc) = Len(sc.kinds)
\* slots already spent
RECURSIVE Spent(_)
Spent(ps) == IF ps = <<>> THEN 0
             ELSE SumSeq([k \in 1..Filled(Head(ps)) |-> Len(Head(ps).v[k])]) + Spent(Tail(ps))
\* slots of the next layer of a partially filled column
NextSlots(sc) ==
  LET k == Filled(sc) IN
  CASE sc.kinds[k] = "L" -> SumSeq([j \in 1..Len(sc.v[k]) |-> IF sc.v[k][j] = 1 THEN sc.lens[k][j] ELSE 0])
    [] sc.kinds[k] = "F" -> Len(sc.v[k]) * Dim
    [] OTHER -> Len(sc.v[k])
\* Masked for a partially filled column: slot j of the layer about to be added (k = Filled + 1)
PMasked(sc, j) == Masked(sc, Filled(sc) + 1, j)

Init == /\ phase = "pick" /\ parts = <<>> /\ how = "one" /\ pages = <<>> /\ ctx = <<>> /\ lv = <<>>
        /\ us = <<>> /\ out = EmptySc(<<>>) /\ step = 0

Pick == /\ phase = "pick"
        /\ IF Mode = "directed" THEN \E c \in DirectedCols : parts' = <<c>>
                                ELSE \E ks \in Shapes : parts' = <<EmptySc(ks)>>
        /\ phase' = "fill"
        /\ UNCHANGED <<how, pages, ctx, lv, us, out, step>>

\* add one layer to the batch being filled
Fill ==
  /\ phase = "fill"
  /\ LET cur == Len(parts)
         sc  == parts[cur]
         k   == Filled(sc) + 1
         left == MaxTotal - Spent(parts)
     IN
     /\ ~Complete(sc)
     /\ \E n \in (IF k = 1 THEN 1..MaxRows ELSE {NextSlots(sc)}) :
        /\ n <= left
        /\ \E hv \in (IF Validity = "none" \/ (n = 0 /\ ~ZeroLenBitmaps) THEN {FALSE} ELSE BOOLEAN) :
           \E vb \in [1..n -> {0, 1}] :
             /\ (~hv) => \A j \in 1..n : vb[j] = 1
             /\ IF sc.kinds[k] = "L"
                THEN \E ls \in [1..n -> 0..MaxLen] :
                       /\ \A j \in 1..n : vb[j] = 0 => ls[j] <= MaxGarbage
                       /\ \A j \in 1..n : (vb[j] = 1 /\ ls[j] > 0) => ~PMasked(sc, j)
                       /\ SumSeq([j \in 1..n |-> IF vb[j] = 1 THEN ls[j] ELSE 0]) <= left - n
                       /\ parts' = [parts EXCEPT ![cur] = [sc EXCEPT !.hasv = Append(sc.hasv, hv), !.v = Append(sc.v, vb),
                                                                    !.lens = Append(sc.lens, ls)]]
                ELSE /\ (sc.kinds[k] = "F") => n * Dim <= left - n
                     /\ (sc.kinds[k] = "S") => n <= left - n
                     /\ parts' = [parts EXCEPT ![cur] = [sc EXCEPT !.hasv = Append(sc.hasv, hv), !.v = Append(sc.v, vb),
                                                                  !.lens = Append(sc.lens, <<>>)]]
  /\ UNCHANGED <<phase, how, pages, ctx, lv, us, out, step>>

\* second batch of the same shape
NextPart == /\ phase = "fill" /\ Mode = "pair" /\ Len(parts) = 1 /\ Complete(parts[1])
            /\ parts' = Append(parts, EmptySc(parts[1].kinds))
            /\ UNCHANGED <<phase, how, pages, ctx, lv, us, out, step>>

\* hand the batches to the serializer
Start == /\ phase = "fill" /\ Complete(parts[Len(parts)])
         /\ Len(parts) = (IF Mode = "pair" THEN 2 ELSE 1)
         /\ \E h \in (IF Mode = "pair" THEN {"concat", "pages"} ELSE {"one"}) :
              /\ how' = h
              /\ pages' = IF h = "concat" THEN <<ConcatSc(parts[1], parts[2])>> ELSE parts
         /\ ctx' = [i \in 1..Len(pages') |-> SerInit(pages'[i])]
         /\ phase' = "ser" /\ step' = 0
         /\ UNCHANGED <<parts, lv, us, out>>

\* one layer of every page, outer to inner; after the last layer: build()
Ser == /\ phase = "ser"
       /\ IF step < NL(pages[1])
          THEN /\ ctx' = [i \in 1..Len(pages) |-> SerLayer(ctx[i], pages[i], step + 1, Deviations)]
               /\ step' = step + 1
               /\ UNCHANGED <<phase, lv, us, out>>
          ELSE /\ lv' = [i \in 1..Len(pages) |-> SerFinish(ctx[i])]
               /\ us' = [i \in 1..Len(pages) |-> UnrNew(lv'[i], Slots(pages[i], NL(pages[i])), Deviations)]
               /\ out' = [kinds |-> pages[1].kinds, hasv |-> Rep(FALSE, NL(pages[1])),
                          v |-> Rep(<<>>, NL(pages[1])), lens |-> Rep(<<>>, NL(pages[1]))]
               /\ phase' = "unr" /\ step' = NL(pages[1])
               /\ UNCHANGED ctx
       /\ UNCHANGED <<parts, how, pages>>

\* one layer, inner to outer
Unr == /\ phase = "unr"
       /\ IF step >= 1
          THEN LET r == UnravelLayer(us, pages[1].kinds[step], [i \in 1..Len(pages) |-> Slots(pages[i], step)], Deviations) IN
               /\ us' = r.us
               /\ out' = [out EXCEPT !.hasv[step] = r.hasv, !.v[step] = r.v, !.lens[step] = r.lens]
               /\ step' = step - 1
               /\ UNCHANGED phase
          ELSE phase' = "done" /\ UNCHANGED <<us, out, step>>
       /\ UNCHANGED <<parts, how, pages, ctx, lv>>

Next == Pick \/ Fill \/ NextPart \/ Start \/ Ser \/ Unr
Spec == Init /\ [][Next]_vars

(***************************************************************************)
(* Properties                                                              *)
(***************************************************************************)
Input == IF Len(pages) = 0 THEN <<>> ELSE Flat([i \in 1..Len(pages) |-> Tree(pages[i])])

TypeOK == /\ phase \in {"pick", "fill", "ser", "unr", "done"}
          /\ (phase = "ser" /\ step = 0) =>
                \A i \in 1..Len(pages) : WellFormed(pages[i]) /\ Legal(pages[i])

\* the operational serializer (3a) produces the documented levels (2)
LevelsMatchScheme ==
  (phase = "unr" /\ step = NL(pages[1])) => \A i \in 1..Len(pages) : lv[i] = Levels(pages[i])

\* the serializer's own consistency assertion holds
NoDebugAssert == phase \in {"ser", "unr"} => \A i \in 1..Len(ctx) : ~ctx[i].dbg

\* batches serialised together denote the concatenated value
ConcatIsConcat ==
  (phase = "ser" /\ step = 0 /\ how = "concat") => Tree(pages[1]) = Tree(parts[1]) \o Tree(parts[2])

\* Reading the levels row by row (row start: rep = max_rep; item slot: def visible) selects exactly
\* the levels and the items of each row
RowStartsOf(l, n) == SelectSeq([i \in 1..LvLen(l, n) |-> i], LAMBDA i : IsRowStart(l, i))
RowTranslation ==
  (phase = "unr" /\ step = NL(pages[1])) =>
    \A p \in 1..Len(pages) : (\A k \in 1..NL(pages[p]) : pages[p].kinds[k] # "F") =>
      LET sc == pages[p]
          l  == lv[p]
          n  == LvLen(l, Slots(sc, NL(sc)))
          st == RowStartsOf(l, n)
      IN /\ Len(st) = Rows(sc)
         /\ \A r \in 1..Rows(sc) :
              LET lo == st[r] - 1
                  hi == IF r < Rows(sc) THEN st[r+1] - 1 ELSE n
                  itemsBefore == Cardinality({i \in 1..lo : IsVisible(l, i)})
                  itemsIn     == Cardinality({i \in (lo+1)..hi : IsVisible(l, i)})
              IN /\ <<lo, hi>> = RowLevelRange(sc, r)
                 /\ <<itemsBefore, itemsBefore + itemsIn>> = RowItemRange(sc, r)

\* unravelling is a left inverse of building, on the logical value
RoundTrip ==
  phase = "done" => /\ WellFormed(out)
                    /\ Tree(out) = Input
\* a layer is reported without validity buffer only if it has no visible null
NoLostNulls ==
  phase = "done" => \A k \in 1..NL(out) : (~out.hasv[k]) => \A j \in 1..Len(out.v[k]) : out.v[k][j] = 1

\* tiling a column repeats its value
TileIsRepeat == (Mode = "directed" /\ phase = "ser" /\ step = 0) =>
                   Tree(Tile(parts[1], 3)) = Tree(parts[1]) \o Tree(parts[1]) \o Tree(parts[1])

\* scenario printing (evaluated once per distinct state)
Scenario == (PrintScn /\ phase = "ser" /\ step = 0) =>
               PrintT(<<"SCN", ToJson([how |-> how, parts |-> parts])>>)
=============================================================================
