----------------------------- MODULE RepDefOps -----------------------------
(* Repetition / definition levels (property C27).

   Level L3 of the suite: a sequential component with rich case analysis,
   transcribed from rust/lance-encoding/src/repdef.rs (RepDefBuilder /
   SerializerContext / SerializedRepDefs / RepDefUnraveler /
   CompositeRepDefUnraveler / RepDefSlicer / control words) and the row ->
   item translation of encodings/logical/primitive.rs (map_range).

   Three layers live here:
   (1) the *logical value* of a nested column: Tree(sc), a forest of rows.
       A column is given Arrow-style, layer by layer (outer to inner):
         kinds[k] in {"L" list, "S" struct / plain validity wrapper,
                      "F" fixed-size list of dimension Dim, "I" the leaf item}
         hasv[k]  is there a validity buffer on this layer
         v[k]     one 0/1 per slot of the layer (all 1 when ~hasv[k])
         lens[k]  (lists) the raw length of every slot; for a null slot this
                  is the number of *garbage* children hidden behind the null
                  (they are not slots of the next layer)
       Everything below a null is unobservable, so Tree cuts there.
   (2) the *documented scheme* (module docs of repdef.rs) as a declarative
       function of the value: Levels(sc) (Dremel-style, 0 = inner-most /
       valid; one special entry per empty / null list; outer-most null wins;
       layers without nulls use no definition level), Meaning, MaxVisible,
       RowLevelRange / RowItemRange (row -> levels / items).
   (3) a *design-level operational model* transcribed from the code: the
       serializer context (SerInit / SerLayer / SerFinish) and the unraveler
       (UnrNew / UValidity / UOffsets / UFsl, composite over several pages).
   RepDef.tla lets TLC check that (3) refines (2) and that unravelling is a
   left inverse of building on the logical value; Trace_RepDef.tla judges
   recorded calls of the real code with (1) and (2).

   Deviations (what the code does today where that differs from the
   intended design) are named in DeviationNames and passed as a parameter.  *)
EXTENDS Naturals, Integers, Sequences, FiniteSets, TLC

CONSTANTS Dim           \* dimension of every "F" layer

\* Named deviations of the code from the intended design: genuine defects that were reproduced on
\* the pinned crate (each has since been repaired by its own `fix:` commit in /repo; the operators
\* are kept so that TLC can show that each one breaks an invariant and so that Trace_RepDef can name
\* a regression).  Every operator of (3a)/(3b) takes the set `dv` of deviations in force; dv = {}
\* is the design.
\*  AllValidListLevelsFromZero : unravel_offsets on an AllValidList layer computes the visible /
\*      masking level window from 0 instead of from the levels already consumed by inner layers,
\*      so a list that starts with a null item (or sits under a null struct) is not seen as a list
\*  TruncateByOffsetsLen : unravel_offsets without definition levels truncates the rewritten
\*      repetition levels to offsets.len() - 1, which counts the lists of earlier pages too
\*  AllValidAppendsNumItems : unravel_validity of an all-valid layer appends num_items (inner-most
\*      items of the page) instead of the number of slots of that layer
\*  ValidityLenDropsSpecials : do_record_validity sets current_len to validity.len() and forgets the
\*      special entries; with an empty validity bitmap (all lists of the page empty / null) the
\*      length becomes 0 and build() returns "no levels" although the page has rows
\*  AllValidListNotCounted : RepDefUnraveler::new does not count an AllValidList layer when it maps
\*      definition levels to the repetition depth at which they are visible, so levels of outer
\*      layers show up one list too early (e.g. in the validity of a struct between two lists)
DeviationNames == {"AllValidListLevelsFromZero", "TruncateByOffsetsLen", "AllValidAppendsNumItems",
                   "ValidityLenDropsSpecials", "AllValidListNotCounted"}

SP == 1000   \* SPECIAL_THRESHOLD (u16::MAX / 2 in the code; any value above every real level works)

(***************************************************************************)
(* Small sequence helpers                                                  *)
(***************************************************************************)
RECURSIVE SumSeq(_)
SumSeq(s) == IF s = <<>> THEN 0 ELSE Head(s) + SumSeq(Tail(s))
RECURSIVE Flat(_)
Flat(ss) == IF ss = <<>> THEN <<>> ELSE Head(ss) \o Flat(Tail(ss))
Rep(x, n) == [i \in 1..n |-> x]
Rev(s) == [i \in 1..Len(s) |-> s[Len(s) + 1 - i]]
Count(s, P(_)) == Cardinality({i \in 1..Len(s) : P(s[i])})
Take(s, n) == SubSeq(s, 1, IF n < Len(s) THEN n ELSE Len(s))
Drop(s, n) == SubSeq(s, n + 1, Len(s))

(***************************************************************************)
(* (1) The column and its logical value                                    *)
(***************************************************************************)
NL(sc)   == Len(sc.kinds)
Rows(sc) == Len(sc.v[1])

\* children contributed by slot j of list layer k (garbage behind a null is not a child)
Kids(sc, k, j) == IF sc.v[k][j] = 1 THEN sc.lens[k][j] ELSE 0
\* number of children before slot j
Off(sc, k, j)  == SumSeq([i \in 1..(j-1) |-> Kids(sc, k, i)])

RECURSIVE Slots(_, _)
Slots(sc, k) ==
  IF k = 1 THEN Len(sc.v[1])
  ELSE CASE sc.kinds[k-1] = "L" -> SumSeq([j \in 1..Len(sc.v[k-1]) |-> Kids(sc, k-1, j)])
         [] sc.kinds[k-1] = "F" -> Slots(sc, k-1) * Dim
         [] OTHER               -> Slots(sc, k-1)

\* Buffers fit together (needed before Tree may be evaluated)
WellFormed(sc) ==
  /\ NL(sc) >= 1 /\ Len(sc.hasv) = NL(sc) /\ Len(sc.v) = NL(sc) /\ Len(sc.lens) = NL(sc)
  /\ sc.kinds[NL(sc)] = "I"
  /\ \A k \in 1..(NL(sc)-1) : sc.kinds[k] \in {"L", "S", "F"}
  /\ \A k \in 1..NL(sc) :
       /\ \A j \in 1..Len(sc.v[k]) : sc.v[k][j] \in {0, 1}
       /\ (~sc.hasv[k]) => \A j \in 1..Len(sc.v[k]) : sc.v[k][j] = 1
       /\ IF sc.kinds[k] = "L"
          THEN Len(sc.lens[k]) = Len(sc.v[k]) /\ \A j \in 1..Len(sc.lens[k]) : sc.lens[k][j] >= 0
          ELSE sc.lens[k] = <<>>
  /\ \A k \in 2..NL(sc) : Len(sc.v[k]) = Slots(sc, k)

\* Is slot j of layer k hidden behind a null struct / fixed-size-list ancestor
\* (ancestors up to the nearest enclosing list; a list slot with children is never null)?
RECURSIVE Masked(_, _, _)
Masked(sc, k, j) ==
  IF k = 1 THEN FALSE
  ELSE CASE sc.kinds[k-1] = "S" -> sc.v[k-1][j] = 0 \/ Masked(sc, k-1, j)
         [] sc.kinds[k-1] = "F" -> LET p == ((j-1) \div Dim) + 1 IN sc.v[k-1][p] = 0 \/ Masked(sc, k-1, p)
         [] OTHER -> FALSE

\* What the builder may be given (contract of add_offsets + what the structural encoders do:
\* StructArrayExt::pushdown_nulls makes a list under a null struct a null list, and
\* filter_garbage_nulls removes its children): a masked list slot has no children.
Legal(sc) ==
  \A k \in 1..NL(sc) : sc.kinds[k] = "L" =>
     \A j \in 1..Len(sc.v[k]) : Masked(sc, k, j) => Kids(sc, k, j) = 0

\* Rows a..b of a column as a column of its own (a batch / a page of the file)
RECURSIVE SlotsBefore(_, _, _)
SlotsBefore(sc, k, a) ==   \* slots of layer k that belong to rows 1..a-1
  IF k = 1 THEN a - 1
  ELSE LET p == SlotsBefore(sc, k-1, a) IN
       CASE sc.kinds[k-1] = "L" -> Off(sc, k-1, p + 1)
         [] sc.kinds[k-1] = "F" -> p * Dim
         [] OTHER -> p
SubCol(sc, a, b) ==
  [kinds |-> sc.kinds, hasv |-> sc.hasv,
   v    |-> [k \in 1..NL(sc) |-> SubSeq(sc.v[k], SlotsBefore(sc, k, a) + 1, SlotsBefore(sc, k, b + 1))],
   lens |-> [k \in 1..NL(sc) |-> IF sc.kinds[k] = "L"
                                  THEN SubSeq(sc.lens[k], SlotsBefore(sc, k, a) + 1, SlotsBefore(sc, k, b + 1))
                                  ELSE <<>>]]

\* The column repeated n times (the n-fold concatenation of its row sequence).  Files that span
\* several mini-block chunks are made by tiling a small column; row r (0-based) of Tile(sc, n) is row
\* (r % Rows(sc)) + 1 of sc.
RECURSIVE Tile(_, _)
Tile(sc, n) == IF n = 1 THEN sc
               ELSE LET t == Tile(sc, n - 1) IN
                    [kinds |-> sc.kinds, hasv |-> sc.hasv,
                     v    |-> [k \in 1..NL(sc) |-> t.v[k] \o sc.v[k]],
                     lens |-> [k \in 1..NL(sc) |-> t.lens[k] \o sc.lens[k]]]

\* Directed columns for the tiled file cases: rows of 5..7 items so that, tiled, rows straddle
\* mini-block chunk boundaries with nulls among the spilled items (nullable items, null structs
\* under a list, a null struct above a list, nested lists) and one control without any null.
DirectedCols == {
  \* list<int?>: [7 items], null list hiding 3 garbage items, [5 items], [], [6 items]
  [kinds |-> <<"L", "I">>, hasv |-> <<TRUE, TRUE>>,
   v |-> << <<1,0,1,1,1>>, <<1,0,1,1,0,1,1, 0,1,0,1,0, 1,1,1,1,1,0>> >>,
   lens |-> << <<7,3,5,0,6>>, <<>> >>],
  \* control: list<int> without any validity buffer
  [kinds |-> <<"L", "I">>, hasv |-> <<FALSE, FALSE>>,
   v |-> << <<1,1,1>>, <<1,1,1,1,1,1,1, 1,1,1,1,1, 1,1,1,1,1,1>> >>,
   lens |-> << <<7,5,6>>, <<>> >>],
  \* list<struct?<int?>>: null structs and null items under the list
  [kinds |-> <<"L", "S", "I">>, hasv |-> <<FALSE, TRUE, TRUE>>,
   v |-> << <<1,1>>, <<1,0,1,1,0, 0,1,1,0,1,1,0>>, <<1,1,0,1,1, 1,0,1,1,1,0,1>> >>,
   lens |-> << <<5,7>>, <<>>, <<>> >>],
  \* struct?<list<int?>>: a null struct above the list, a null list hiding garbage
  [kinds |-> <<"S", "L", "I">>, hasv |-> <<TRUE, TRUE, TRUE>>,
   v |-> << <<1,0,1,1>>, <<1,0,1,0>>, <<1,0,0,1,1,0, 0,1,1,1,0,1,1>> >>,
   lens |-> << <<>>, <<6,0,7,2>>, <<>> >>],
  \* list<list<int?>>
  [kinds |-> <<"L", "L", "I">>, hasv |-> <<FALSE, TRUE, TRUE>>,
   v |-> << <<1,1,1>>, <<1,1,1,0,1>>, <<1,0,1, 0,1,1,0, 1,1,0,1,1>> >>,
   lens |-> << <<2,1,2>>, <<3,4,5,1,0>>, <<>> >>] }

NullNode == [n |-> TRUE, c |-> <<>>]
RECURSIVE Node(_, _, _)
Node(sc, k, j) ==
  IF sc.v[k][j] = 0 THEN NullNode
  ELSE CASE sc.kinds[k] = "I" -> [n |-> FALSE, c |-> <<>>]
         [] sc.kinds[k] = "S" -> [n |-> FALSE, c |-> <<Node(sc, k+1, j)>>]
         [] sc.kinds[k] = "F" -> [n |-> FALSE, c |-> [i \in 1..Dim |-> Node(sc, k+1, (j-1)*Dim + i)]]
         [] sc.kinds[k] = "L" -> [n |-> FALSE, c |-> [i \in 1..sc.lens[k][j] |-> Node(sc, k+1, Off(sc, k, j) + i)]]
Tree(sc) == [j \in 1..Rows(sc) |-> Node(sc, 1, j)]

\* leaf slots (layer NL) physically below slot j of layer k
RECURSIVE Leaves(_, _, _)
Leaves(sc, k, j) ==
  IF k = NL(sc) THEN 1
  ELSE CASE sc.kinds[k] = "S" -> Leaves(sc, k+1, j)
         [] sc.kinds[k] = "F" -> SumSeq([i \in 1..Dim |-> Leaves(sc, k+1, (j-1)*Dim + i)])
         [] sc.kinds[k] = "L" -> SumSeq([i \in 1..Kids(sc, k, j) |-> Leaves(sc, k+1, Off(sc, k, j) + i)])
\* Items (0-based leaf slot positions, half-open) of row r -- the meaning of row -> item translation
RowItemRange(sc, r) ==
  LET s == SumSeq([i \in 1..(r-1) |-> Leaves(sc, 1, i)]) IN <<s, s + Leaves(sc, 1, r)>>
ItemsOfRows(sc, rows) == Flat([i \in 1..Len(rows) |->
                           LET rg == RowItemRange(sc, rows[i]) IN [x \in 1..(rg[2]-rg[1]) |-> rg[1] + x - 1]])

(***************************************************************************)
(* (2) The documented scheme, declaratively                                *)
(***************************************************************************)
HasEmpty(sc, k) == \E j \in 1..Len(sc.v[k]) : sc.v[k][j] = 1 /\ sc.lens[k][j] = 0
Meaning(sc, k) ==
  IF sc.kinds[k] = "L"
  THEN (IF sc.hasv[k] THEN (IF HasEmpty(sc, k) THEN "NEL" ELSE "NL")
                      ELSE (IF HasEmpty(sc, k) THEN "EL" ELSE "AVL"))
  ELSE (IF sc.hasv[k] THEN "NI" ELSE "AVI")
ND(m) == CASE m \in {"AVI", "AVL"} -> 0 [] m = "NEL" -> 2 [] OTHER -> 1
IsListM(m) == m \in {"AVL", "NL", "EL", "NEL"}
IsAllValidM(m) == m \in {"AVI", "AVL", "EL"}
MaxDef(sc) == SumSeq([k \in 1..NL(sc) |-> ND(Meaning(sc, k))])
MaxRep(sc) == Count(sc.kinds, LAMBDA x : x = "L")
\* highest level of layer k = max_def minus the levels of all outer layers
TopLevel(sc, k)   == MaxDef(sc) - SumSeq([i \in 1..(k-1) |-> ND(Meaning(sc, i))])
NullLevel(sc, k)  == IF Meaning(sc, k) = "NEL" THEN TopLevel(sc, k) - 1 ELSE TopLevel(sc, k)
EmptyLevel(sc, k) == TopLevel(sc, k)
RepLevel(sc, k)   == MaxRep(sc) - Count(SubSeq(sc.kinds, 1, k-1), LAMBDA x : x = "L")

\* interpretation stack, inner-most first (def_meaning)
MeaningStack(sc) == Rev([k \in 1..NL(sc) |-> Meaning(sc, k)])
\* levels of the layers below the inner-most list: entries at or below it occupy an item slot
VisibleOf(mean) ==
  IF \E i \in 1..Len(mean) : IsListM(mean[i])
  THEN LET first == CHOOSE i \in 1..Len(mean) : IsListM(mean[i]) /\ \A h \in 1..(i-1) : ~IsListM(mean[h])
       IN SumSeq([i \in 1..(first-1) |-> ND(mean[i])])
  ELSE -1
MaxVisible(sc) == VisibleOf(MeaningStack(sc))

\* <<rep, def>> entries of slot j of layer k; d = level of the outer-most null ancestor (0: none),
\* r = repetition level still to be announced on the first entry (0: none)
RECURSIVE Emit(_, _, _, _, _)
Emit(sc, k, j, d, r) ==
  LET own == IF d # 0 THEN d ELSE IF sc.v[k][j] = 0 THEN NullLevel(sc, k) ELSE 0 IN
  CASE sc.kinds[k] = "I" -> << <<r, own>> >>
    [] sc.kinds[k] = "S" -> Emit(sc, k+1, j, own, r)
    [] sc.kinds[k] = "F" -> Flat([i \in 1..Dim |-> Emit(sc, k+1, (j-1)*Dim + i, own, IF i = 1 THEN r ELSE 0)])
    [] sc.kinds[k] = "L" ->
         LET rr == IF r # 0 THEN r ELSE RepLevel(sc, k) IN
         IF own # 0 THEN << <<rr, own>> >>
         ELSE IF sc.lens[k][j] = 0 THEN << <<rr, EmptyLevel(sc, k)>> >>
         ELSE Flat([i \in 1..sc.lens[k][j] |-> Emit(sc, k+1, Off(sc, k, j) + i, 0, IF i = 1 THEN rr ELSE 0)])
RowLevels(sc, r) == Emit(sc, 1, r, 0, 0)
Levels(sc) ==
  LET all == Flat([r \in 1..Rows(sc) |-> RowLevels(sc, r)]) IN
  [hasrep |-> MaxRep(sc) > 0, rep |-> IF MaxRep(sc) > 0 THEN [i \in 1..Len(all) |-> all[i][1]] ELSE <<>>,
   hasdef |-> MaxDef(sc) > 0, def |-> IF MaxDef(sc) > 0 THEN [i \in 1..Len(all) |-> all[i][2]] ELSE <<>>,
   mean |-> MeaningStack(sc), mvl |-> MaxVisible(sc)]
\* levels (0-based, half-open) of row r
RowLevelRange(sc, r) ==
  LET s == SumSeq([i \in 1..(r-1) |-> Len(RowLevels(sc, i))]) IN <<s, s + Len(RowLevels(sc, r))>>
NumLevels(sc) == SumSeq([i \in 1..Rows(sc) |-> Len(RowLevels(sc, i))])

\* Reading levels the documented way: rows start at rep = max_rep; an entry occupies an item slot
\* iff its def level is visible.
LvRep(lv, i) == IF lv.hasrep THEN lv.rep[i] ELSE 0
LvDef(lv, i) == IF lv.hasdef THEN lv.def[i] ELSE 0
LvLen(lv, n) == IF lv.hasrep THEN Len(lv.rep) ELSE IF lv.hasdef THEN Len(lv.def) ELSE n
LvMaxRep(lv) == Count(lv.mean, IsListM)
IsVisible(lv, i) == lv.mvl < 0 \/ LvDef(lv, i) <= lv.mvl
IsRowStart(lv, i) == LvMaxRep(lv) = 0 \/ LvRep(lv, i) = LvMaxRep(lv)

(***************************************************************************)
(* (3a) Operational model of RepDefBuilder::serialize                      *)
(***************************************************************************)
\* do_add_offsets: normalised lengths (null lists have no children), flags
NormLens(sc, k)    == [j \in 1..Len(sc.v[k]) |-> Kids(sc, k, j)]
HasGarbage(sc, k)  == \E j \in 1..Len(sc.v[k]) : sc.v[k][j] = 0 /\ sc.lens[k][j] # 0

\* do_record_validity: null slots whose def is still 0 get `lvl`; special entries are skipped
RECURSIVE RV(_, _, _)
RV(def, vb, lvl) ==
  IF def = <<>> THEN <<>>
  ELSE IF Head(def) > SP THEN <<Head(def)>> \o RV(Tail(def), vb, lvl)
  ELSE <<IF Head(def) = 0 /\ Head(vb) = 0 THEN lvl ELSE Head(def)>> \o RV(Tail(def), Tail(vb), lvl)

\* record_offsets, branch without definition levels
RECURSIVE RONoDef(_, _, _)
RONoDef(rep, ls, replvl) ==
  IF ls = <<>> THEN <<>>
  ELSE <<IF Head(rep) = 0 THEN replvl ELSE Head(rep)>> \o Rep(0, Head(ls) - 1) \o RONoDef(Tail(rep), Tail(ls), replvl)
\* record_offsets, branch with definition levels; yields <<rep, def>> pairs
RECURSIVE RODef(_, _, _, _, _)
RODef(rep, def, ls, replvl, emptylvl) ==
  IF def = <<>> THEN <<>>
  ELSE IF Head(def) > SP THEN << <<Head(rep), Head(def)>> >> \o RODef(Tail(rep), Tail(def), ls, replvl, emptylvl)
  ELSE LET ll == IF Head(rep) = 0 THEN replvl ELSE Head(rep)
           d  == Head(def)
           n  == Head(ls) IN
       (IF d = 0 /\ n > 0 THEN << <<ll, 0>> >> \o Rep(<<0, 0>>, n - 1)
        ELSE IF d = 0 THEN << <<ll, emptylvl + SP>> >>
        ELSE << <<ll, d + SP>> >>)
       \o RODef(Tail(rep), Tail(def), Tail(ls), replvl, emptylvl)

\* len = current_len, nspec = current_num_specials of the code
SerInit(sc) == [rep |-> Rep(0, Rows(sc)), def |-> Rep(0, Rows(sc)), crep |-> MaxRep(sc), cdef |-> MaxDef(sc),
                mean |-> <<>>, hasrep |-> MaxRep(sc) > 0, hasdef |-> MaxDef(sc) > 0, len |-> 0, nspec |-> 0, dbg |-> FALSE]
\* own-null or empty lists of layer k (num_specials of do_add_offsets)
NumSpecials(sc, k) == Cardinality({j \in 1..Len(sc.v[k]) : sc.v[k][j] = 0 \/ sc.lens[k][j] = 0})
\* current_len after do_record_validity
VLen(c, sc, k, dv) == IF ~sc.hasv[k] THEN c.len
                      ELSE IF "ValidityLenDropsSpecials" \in dv THEN Len(sc.v[k]) ELSE Len(sc.v[k]) + c.nspec

\* one layer (outer to inner): record_offsets / record_validity / record_fsl
SerLayer(c, sc, k, dv) ==
  LET m   == Meaning(sc, k)
      top == c.cdef
      \* debug_assert!(current_len == 0 || current_len == validity.len() + current_num_specials)
      trip == sc.hasv[k] /\ c.len # 0 /\ c.len # Len(sc.v[k]) + c.nspec
      c1  == [c EXCEPT !.cdef = top - ND(m), !.mean = Append(c.mean, m), !.dbg = c.dbg \/ trip]
  IN
  CASE sc.kinds[k] = "L" ->
         LET nulllvl  == IF m = "NEL" THEN top - 1 ELSE IF m = "NL" THEN top ELSE 0
             emptylvl == IF m \in {"NEL", "EL"} THEN top ELSE 0
             def1 == IF sc.hasv[k] THEN RV(c.def, sc.v[k], nulllvl) ELSE c.def
             ls   == NormLens(sc, k)
         IN IF ~c.hasdef
            THEN [c1 EXCEPT !.crep = c.crep - 1, !.rep = RONoDef(c.rep, ls, c.crep),
                            !.def = Rep(0, SumSeq(ls)), !.len = SumSeq(ls),
                            !.nspec = c.nspec + NumSpecials(sc, k)]
            ELSE LET prs == RODef(c.rep, def1, ls, c.crep, emptylvl) IN
                 [c1 EXCEPT !.crep = c.crep - 1, !.rep = [i \in 1..Len(prs) |-> prs[i][1]],
                            !.def = [i \in 1..Len(prs) |-> prs[i][2]], !.len = Len(prs),
                            !.nspec = c.nspec + NumSpecials(sc, k)]
    [] sc.kinds[k] = "F" ->
         LET def1 == IF sc.hasv[k] THEN RV(c.def, sc.v[k], top) ELSE c.def IN
         \* multiply_levels (no list layer may be around: decimate() is todo!() for those)
         [c1 EXCEPT !.def = Flat([i \in 1..Len(def1) |-> Rep(def1[i], Dim)]),
                    !.rep = Flat([i \in 1..Len(c.rep) |-> Rep(c.rep[i], Dim)]),
                    !.len = (VLen(c, sc, k, dv) - c.nspec) * Dim + c.nspec]
    [] OTHER ->
         [c1 EXCEPT !.def = IF sc.hasv[k] THEN RV(c.def, sc.v[k], top) ELSE c.def, !.len = VLen(c, sc, k, dv)]

\* normalize_specials + build
SerFinish(c) ==
  IF c.len = 0   \* build(): "nothing was recorded" -- the interpretation stack is not even reversed
  THEN [hasrep |-> FALSE, rep |-> <<>>, hasdef |-> FALSE, def |-> <<>>, mean |-> c.mean, mvl |-> VisibleOf(c.mean)]
  ELSE
  [hasrep |-> c.hasrep, rep |-> IF c.hasrep THEN c.rep ELSE <<>>,
   hasdef |-> c.hasdef, def |-> IF c.hasdef THEN [i \in 1..Len(c.def) |-> IF c.def[i] > SP THEN c.def[i] - SP ELSE c.def[i]] ELSE <<>>,
   mean |-> Rev(c.mean), mvl |-> VisibleOf(Rev(c.mean))]

RECURSIVE SerUpTo(_, _, _)
SerUpTo(sc, k, dv) == IF k = 0 THEN SerInit(sc) ELSE SerLayer(SerUpTo(sc, k-1, dv), sc, k, dv)
Build(sc, dv) == SerFinish(SerUpTo(sc, NL(sc), dv))
\* does a debug build stop at the length assertion of do_record_validity?
DebugAssertTrips(sc, dv) == SerUpTo(sc, NL(sc), dv).dbg

\* several batches serialised together (serialize(vec![b1, b2, ...])): concat_layers first
ConcatSc(a, b) ==
  [kinds |-> a.kinds,
   hasv  |-> [k \in 1..NL(a) |-> a.hasv[k] \/ b.hasv[k]],
   v     |-> [k \in 1..NL(a) |-> a.v[k] \o b.v[k]],
   lens  |-> [k \in 1..NL(a) |-> a.lens[k] \o b.lens[k]]]

(***************************************************************************)
(* (3b) Operational model of RepDefUnraveler / CompositeRepDefUnraveler    *)
(***************************************************************************)
\* levels_to_rep (index = level + 1)
RECURSIVE L2R(_, _, _)
L2R(mean, cnt, dv) ==
  IF mean = <<>> THEN <<>>
  ELSE LET m == Head(mean) IN
       CASE m = "AVI" -> L2R(Tail(mean), cnt, dv)
         [] m = "AVL" -> L2R(Tail(mean), IF "AllValidListNotCounted" \in dv THEN cnt ELSE cnt + 1, dv)
         [] m = "NI"  -> <<cnt>> \o L2R(Tail(mean), cnt, dv)
         [] m = "NEL" -> <<cnt + 1, cnt + 1>> \o L2R(Tail(mean), cnt + 1, dv)
         [] OTHER     -> <<cnt + 1>> \o L2R(Tail(mean), cnt + 1, dv)
UnrNew(lv, nitems, dv) ==
  [hasrep |-> lv.hasrep, rep |-> lv.rep, hasdef |-> lv.hasdef, def |-> lv.def, mean |-> lv.mean,
   l2r |-> <<0>> \o L2R(lv.mean, 0, dv), cdef |-> 0, crep |-> 0, layer |-> 1, nitems |-> nitems]

\* --- validity of a struct / item layer --------------------------------------------------------
\* RepDefUnraveler::unravel_validity: returns <<unraveler', bits>>
\* `count` = number of slots of this layer in this page (the caller knows it as the length of the
\* child array); the code uses num_items (the number of inner-most items) instead.
UOneValidity(u, count, dv) ==
  IF u.mean[u.layer] = "AVI"
  THEN << [u EXCEPT !.layer = u.layer + 1],
          Rep(1, IF "AllValidAppendsNumItems" \in dv THEN u.nitems ELSE count) >>
  ELSE LET sel == SelectSeq(u.def, LAMBDA lvl : u.l2r[lvl + 1] <= u.crep) IN
       << [u EXCEPT !.layer = u.layer + 1, !.cdef = u.cdef + 1],
          [i \in 1..Len(sel) |-> IF sel[i] <= u.cdef THEN 1 ELSE 0] >>
\* CompositeRepDefUnraveler::unravel_validity over pages us; counts[i] = slots of page i.
\* Result: [us, hasv, v]
UValidity(us, counts, dv) ==
  IF \A i \in 1..Len(us) : IsAllValidM(us[i].mean[us[i].layer])
  THEN [us |-> [i \in 1..Len(us) |-> [us[i] EXCEPT !.layer = us[i].layer + 1]],
        hasv |-> FALSE, v |-> Rep(1, SumSeq(counts))]
  ELSE LET rs == [i \in 1..Len(us) |-> UOneValidity(us[i], counts[i], dv)] IN
       [us |-> [i \in 1..Len(us) |-> rs[i][1]], hasv |-> TRUE, v |-> Flat([i \in 1..Len(us) |-> rs[i][2]])]

\* decimate + unravel_validity
UFsl(us, counts, dv) ==
  LET dec(u) == [u EXCEPT !.def = [i \in 1..(Len(u.def) \div Dim) |-> u.def[(i-1)*Dim + 1]]] IN
  UValidity([i \in 1..Len(us) |-> dec(us[i])], counts, dv)

\* --- offsets of a list layer ----------------------------------------------------------------
\* walk with definition levels; acc = [off, val, rep, def, cur]
RECURSIVE UWalkDef(_, _, _, _, _, _, _, _)
UWalkDef(rep, def, acc, nulllvl, emptylvl, maxlvl, uppernull, i) ==
  IF i > Len(rep) THEN acc
  ELSE LET r == rep[i]
           d == def[i] IN
       IF r = 0 THEN UWalkDef(rep, def, [acc EXCEPT !.cur = acc.cur + 1], nulllvl, emptylvl, maxlvl, uppernull, i + 1)
       ELSE LET a1 == [acc EXCEPT !.rep = Append(acc.rep, r - 1), !.def = Append(acc.def, d)]
                a2 == IF d = 0 THEN [a1 EXCEPT !.off = Append(a1.off, a1.cur), !.cur = a1.cur + 1, !.val = Append(a1.val, 1)]
                      ELSE IF d > maxlvl THEN a1
                      ELSE IF d = nulllvl \/ d > uppernull THEN [a1 EXCEPT !.off = Append(a1.off, a1.cur), !.val = Append(a1.val, 0)]
                      ELSE IF d = emptylvl THEN [a1 EXCEPT !.off = Append(a1.off, a1.cur), !.val = Append(a1.val, 1)]
                      ELSE [a1 EXCEPT !.off = Append(a1.off, a1.cur), !.cur = a1.cur + 1, !.val = Append(a1.val, 1)]
            IN UWalkDef(rep, def, a2, nulllvl, emptylvl, maxlvl, uppernull, i + 1)
RECURSIVE UWalkNoDef(_, _, _)
UWalkNoDef(rep, acc, i) ==
  IF i > Len(rep) THEN acc
  ELSE IF rep[i] # 0
       THEN UWalkNoDef(rep, [acc EXCEPT !.off = Append(acc.off, acc.cur), !.val = Append(acc.val, 1),
                                       !.rep = Append(acc.rep, rep[i] - 1), !.cur = acc.cur + 1], i + 1)
       ELSE UWalkNoDef(rep, [acc EXCEPT !.cur = acc.cur + 1], i + 1)

\* RepDefUnraveler::unravel_offsets; offs = offsets accumulated by earlier pages (ends with the
\* running total, or is empty).  Returns <<unraveler', offsets', validity bits of the new lists>>
UOneOffsets(u, offs, dv) ==
  LET m        == u.mean[u.layer]
      valid    == u.cdef
      nulllvl  == IF m \in {"NL", "NEL"} THEN valid + 1 ELSE 0
      emptylvl == IF m = "EL" THEN valid + 1 ELSE IF m = "NEL" THEN valid + 2 ELSE 0
      cdef1    == valid + ND(m)
      \* highest level that belongs to this layer or to the layers below it
      own      == IF nulllvl > emptylvl THEN nulllvl ELSE emptylvl
      upper    == IF "AllValidListLevelsFromZero" \in dv THEN own
                  ELSE IF own > valid THEN own ELSE valid
      rest     == SubSeq(u.mean, u.layer + 1, Len(u.mean))
      \* null structs directly above this list are still visible at this repetition level
      nstruct  == LET stop == IF \E i \in 1..Len(rest) : rest[i] \notin {"NI", "AVI"}
                              THEN (CHOOSE i \in 1..Len(rest) : rest[i] \notin {"NI", "AVI"}
                                       /\ \A h \in 1..(i-1) : rest[h] \in {"NI", "AVI"}) - 1
                              ELSE Len(rest)
                  IN Count(SubSeq(rest, 1, stop), LAMBDA x : x = "NI")
      maxlvl   == upper + nstruct
      cur0     == IF offs = <<>> THEN 0 ELSE offs[Len(offs)]
      off0     == IF offs = <<>> THEN <<>> ELSE SubSeq(offs, 1, Len(offs) - 1)
      acc0     == [off |-> off0, val |-> <<>>, rep |-> <<>>, def |-> <<>>, cur |-> cur0]
  IN
  IF u.hasdef
  THEN LET a == UWalkDef(u.rep, u.def, acc0, nulllvl, emptylvl, maxlvl, upper, 1) IN
       << [u EXCEPT !.layer = u.layer + 1, !.cdef = cdef1, !.crep = u.crep + 1, !.rep = a.rep, !.def = a.def],
          Append(a.off, a.cur), a.val >>
  ELSE LET a == UWalkNoDef(u.rep, acc0, 1)
           \* intended: keep exactly the rewritten entries.  As built: rep_levels.truncate(offsets.len() - 1)
           \* which is too long when an earlier page already contributed offsets, so stale entries survive.
           keep == IF "TruncateByOffsetsLen" \in dv
                   THEN (IF Len(a.off) < Len(u.rep) THEN Len(a.off) ELSE Len(u.rep))
                   ELSE Len(a.rep)
           rep1 == [i \in 1..keep |-> IF i <= Len(a.rep) THEN a.rep[i] ELSE u.rep[i]]
       IN << [u EXCEPT !.layer = u.layer + 1, !.cdef = cdef1, !.crep = u.crep + 1, !.rep = rep1],
             Append(a.off, a.cur), a.val >>

\* CompositeRepDefUnraveler::unravel_offsets: [us, off, hasv, v]
RECURSIVE UOffsetsFrom(_, _, _, _, _)
UOffsetsFrom(us, i, offs, vals, dv) ==
  IF i > Len(us) THEN [us |-> us, off |-> offs, v |-> vals]
  ELSE LET r == UOneOffsets(us[i], offs, dv) IN
       UOffsetsFrom([us EXCEPT ![i] = r[1]], i + 1, r[2], vals \o r[3], dv)
UOffsets(us, dv) ==
  LET allvalid == \A i \in 1..Len(us) : IsAllValidM(us[i].mean[us[i].layer])
      r == UOffsetsFrom(us, 1, <<>>, <<>>, dv) IN
  [us |-> r.us, off |-> r.off, hasv |-> ~allvalid, v |-> IF allvalid THEN Rep(1, Len(r.v)) ELSE r.v]

\* Offsets -> lengths
OffLens(off) == [j \in 1..(Len(off) - 1) |-> off[j+1] - off[j]]

\* One unravel step for layer k of the shape (inner to outer): returns [us, hasv, v, lens]
\* counts[i]: slots of layer k in page i (what the decoder knows as the child array length)
UnravelLayer(us, kind, counts, dv) ==
  CASE kind = "L" -> LET r == UOffsets(us, dv) IN [us |-> r.us, hasv |-> r.hasv, v |-> r.v, lens |-> OffLens(r.off)]
    [] kind = "F" -> LET r == UFsl(us, counts, dv) IN [us |-> r.us, hasv |-> r.hasv, v |-> r.v, lens |-> <<>>]
    [] OTHER      -> LET r == UValidity(us, counts, dv) IN [us |-> r.us, hasv |-> r.hasv, v |-> r.v, lens |-> <<>>]

\* Whole unravel of pages (each page i: levels lvs[i] built from column parts[i])
RECURSIVE UnravelFrom(_, _, _, _, _)
UnravelFrom(us, parts, k, out, dv) ==
  IF k = 0 THEN out
  ELSE LET r == UnravelLayer(us, parts[1].kinds[k], [i \in 1..Len(parts) |-> Slots(parts[i], k)], dv) IN
       UnravelFrom(r.us, parts, k - 1,
                   [out EXCEPT !.hasv[k] = r.hasv, !.v[k] = r.v, !.lens[k] = r.lens], dv)
Unravel(lvs, parts, dv) ==
  LET n == NL(parts[1]) IN
  UnravelFrom([i \in 1..Len(parts) |-> UnrNew(lvs[i], Slots(parts[i], n), dv)], parts, n,
              [kinds |-> parts[1].kinds, hasv |-> Rep(FALSE, n), v |-> Rep(<<>>, n), lens |-> Rep(<<>>, n)], dv)
=============================================================================
