------------------------------ MODULE RowIdSeq ------------------------------
(* State machines over the operators of RowIdSeqOps / OffsetMapOps (property
   C34, and part (a) of C15).

   Mode "seq":   a row id sequence (constructive model: list of encoded
                 segments) evolves by extend / delete / mask steps, next to a
                 ghost plain list.  Invariants: iterating the structure gives
                 the ghost list (IterIsGhost) and every query -- len, get,
                 slice, select, rechunk -- answers as the plain list does
                 (QueriesAgree, RechunkAgrees), whatever encoding each segment
                 is in (the encoding of a new part is a nondeterministic
                 choice among all encodings that can represent it; re-encoding
                 after delete / mask follows the code's size rule).
   Mode "index": a table layout grows fragment by fragment (row id lists in
                 arbitrary encodings, a deletion vector each; an id may occur
                 again only where the other occurrences are deleted -- the
                 update case).  Invariant: RowIdIndex.get is exactly the
                 inverse of the layout minus deletions (IndexIsInverse).
   Mode "offmap": one OffsetMapper serves a non-decreasing list of offsets;
                 invariant: each answer is the position of the i-th
                 undeleted row (MapIsNthUndeleted).                         *)
EXTENDS RowIdSeqOps, OffsetMapOps

CONSTANTS K,          \* ids are 0..K-1
          MaxLen,     \* total number of ids in a sequence / layout
          MaxPart,    \* ids per extend step / per fragment
          MaxSegs,    \* extend steps / fragments
          MaxDepth,
          QLen,       \* longest select / chunk-size list the query invariants try
          NP,         \* offmap: physical rows 0..NP-1 may be deleted
          Mode

Ids == 0..(K-1)
\* injective lists over a set, up to a length
InjLists(S, n) == UNION {{s \in [1..m -> S] : Injective(s)} : m \in 0..n}
Lists(S, n) == UNION {[1..m -> S] : m \in 0..n}
NonDecLists(S, n) == {s \in Lists(S, n) : NonDecreasing(s)}

VARIABLES seq, ghost,            \* mode seq
          layC, layG,            \* mode index: constructive / ghost layout
          dv, mst, lastOff, res, \* mode offmap
          depth
vars == <<seq, ghost, layC, layG, dv, mst, lastOff, res, depth>>

Init == /\ seq = <<>> /\ ghost = <<>>
        /\ layC = <<>> /\ layG = <<>>
        /\ IF Mode = "offmap" THEN dv \in SUBSET (0..(NP-1)) ELSE dv = {}
        /\ mst = InitMapper /\ lastOff = 0 /\ res = -1
        /\ depth = 0

\* ---- mode seq ---------------------------------------------------------------
Extend == /\ Len(seq) < MaxSegs
          /\ \E xs \in InjLists(Ids \ SeqRange(ghost), Min2(MaxPart, MaxLen - Len(ghost))) :
               \E k \in Representable(xs) \cup (IF xs = <<>> THEN {"R"} ELSE {}) :
                  /\ seq' = SeqExtend(seq, <<Build(k, xs)>>)
                  /\ ghost' = ghost \o xs
          /\ UNCHANGED <<layC, layG, dv, mst, lastOff, res>>
\* ids to delete: any list (absent ids, repeated ids, any order)
Delete == /\ ghost # <<>>
          /\ \E ids \in Lists(Ids, 3) :
                /\ seq' = SeqDelete(seq, ids)
                /\ ghost' = DeleteIds(ghost, SeqRange(ids))
          /\ UNCHANGED <<layC, layG, dv, mst, lastOff, res>>
\* positions to mask: any list of distinct in-range positions, in any order
Mask == /\ ghost # <<>>
        /\ \E ps \in InjLists(0..(Len(ghost)-1), 3) :
              /\ seq' = SeqMask(seq, ps)
              /\ ghost' = MaskPos(ghost, SeqRange(ps))
        /\ UNCHANGED <<layC, layG, dv, mst, lastOff, res>>

\* ---- mode index -------------------------------------------------------------
AddFragment ==
   /\ Len(layG) < MaxSegs
   /\ \E xs \in InjLists(Ids, MaxPart), cut \in 0..MaxPart :
        /\ cut <= Len(xs)
        /\ SumSeq([f \in DOMAIN layG |-> Len(layG[f][1])]) + Len(xs) <= MaxLen
        /\ \E d \in SUBSET (0..(Len(xs)-1)) :
             LET a == SubSeq(xs, 1, cut)
                 b == SubSeq(xs, cut+1, Len(xs))
             IN /\ LiveUnique(Append(layG, <<xs, d>>))
                /\ layG' = Append(layG, <<xs, d>>)
                \* encodings matter little here: the code's own choice, or a plain array
                /\ \E ka \in {ChooseKind(a, Ascending(a))} \cup (IF a = <<>> THEN {} ELSE {"A"}),
                      kb \in {ChooseKind(b, Ascending(b))} \cup (IF b = <<>> THEN {} ELSE {"A"}) :
                      layC' = Append(layC, <<IF cut = 0 THEN <<Build(kb, b)>>
                                               ELSE SeqExtend(<<Build(ka, a)>>, <<Build(kb, b)>>), d>>)
   /\ UNCHANGED <<seq, ghost, dv, mst, lastOff, res>>

\* ---- mode offmap ------------------------------------------------------------
MapNext == /\ \E off \in lastOff..(NP - Cardinality(dv)) :
                LET r == MapOffsetC(dv, mst, off)
                IN /\ res' = r[1] /\ mst' = r[2] /\ lastOff' = off
           /\ UNCHANGED <<seq, ghost, layC, layG, dv>>

Next == /\ depth < MaxDepth
        /\ depth' = depth + 1
        /\ CASE Mode = "seq" -> (Extend \/ Delete \/ Mask)
             [] Mode = "index" -> AddFragment
             [] Mode = "offmap" -> MapNext
Spec == Init /\ [][Next]_vars

\* ---- C34 --------------------------------------------------------------------
SegOK(s) == /\ s.k \in Kinds
            /\ s.k \in {"R", "H", "B"} => (s.lo <= s.hi /\ s.holes \subseteq (s.lo + 1)..(s.hi - 2) /\ s.arr = <<>>)
            /\ s.k = "R" => s.holes = {}
            /\ s.k = "S" => Ascending(s.arr)
            /\ s.k \in {"S", "A"} => s.arr # <<>>
TypeOK == /\ \A i \in DOMAIN seq : SegOK(seq[i])
          /\ \A f \in DOMAIN layC : \A i \in DOMAIN layC[f][1] : SegOK(layC[f][1][i])
IterIsGhost == SeqIter(seq) = ghost /\ SeqLen(seq) = Len(ghost) /\ Injective(ghost)
QueriesAgree ==
   LET n == Len(ghost) IN
   /\ \A i \in 0..(n+1) : SeqGet(seq, i) = Get(ghost, i)
   /\ \A off \in 0..n : \A len \in 0..(n - off) : SeqSliceIter(seq, off, len) = Slice(ghost, off, len)
   /\ \A sel \in NonDecLists(0..(n+1), QLen) : SeqSelect(seq, sel) = Select(ghost, sel)
RechunkAgrees ==
   LET n == Len(ghost) IN
   \A sizes \in Lists(0..(n+1), QLen) : \A allowInc \in BOOLEAN :
      LET r == SeqRechunk(seq, sizes, allowInc) IN
      /\ (r[1] = "ok") = RechunkOk(ghost, sizes, allowInc)
      /\ r[1] = "ok" => [k \in DOMAIN r[2] |-> SeqIter(r[2][k])] = RechunkChunks(ghost, sizes)
\* the encoding the size rule picks can always represent the list
ChoiceSound == ChooseKind(ghost, Ascending(ghost)) \in
                  (Representable(ghost) \cup (IF ghost = <<>> THEN {"R"} ELSE {}))
IndexIsInverse ==
   /\ LiveUnique(layG)
   /\ \A f \in DOMAIN layG : SeqIter(layC[f][1]) = layG[f][1]
   /\ \A id \in 0..K : IndexGetC(layC, id) = IndexGet(layG, id)
\* ---- C15 (a) ----------------------------------------------------------------
MapIsNthUndeleted == res # -1 => res = NthUndeleted(dv, lastOff)
=============================================================================
