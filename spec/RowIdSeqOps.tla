---------------------------- MODULE RowIdSeqOps ----------------------------
(* Row id sequences and the row id index (property C34).

   Level L3 of the suite: a sequential component with rich case analysis,
   transcribed from rust/lance-table/src/rowids.rs (RowIdSequence,
   rechunk_sequences), rowids/segment.rs (U64Segment) and rowids/index.rs
   (RowIdIndex).

   Two layers live here:
   (1) the *meaning*: a row id sequence is a plain list of distinct ids, and
       every operation is the same operation on the plain list (DeleteIds,
       MaskPos, Slice, Select, Get, Rechunk, IndexGet).  This is the oracle
       Trace_RowIdSeq uses to judge recorded implementation calls.
   (2) a *design-level constructive model* of the data structure: a sequence
       is a list of segments, each in one of five encodings
       (Range / RangeWithHoles / RangeWithBitmap / SortedArray / Array), with
       the algorithms as the code implements them (range merging in extend,
       per-segment position splitting in mask, the two cursor searches of
       slice, the single forward cursor of select, the chunk/segment loop of
       rechunk_sequences, the chunk sweep of RowIdIndex::new).  RowIdSeq.tla
       lets TLC check that (2) refines (1) whatever encoding is picked.
   Ids are small naturals here; the implementation's u64 domain is reached
   through the order-preserving embeddings applied by the driver.

   `Deviations` names what the code did before it was repaired, where that
   differed from the intended design (see the comments at each use):
     "MaskNeedsSorted"      mask() consumed positions in the order given
                            (repaired by /repo c5a9910)
     "DeleteDupStalls"      delete() stalled on a repeated id (53b3350)
     "RechunkTrailingEmpty" rechunk_sequences took a left-over *empty* segment
                            for left-over ids (1f4ed83)
   With Deviations = {} (the default, and what the checks use) the model is
   the intended design; TLC finds IterIsGhost / RechunkAgrees violated as soon
   as one of them is switched on.                                           *)
EXTENDS Naturals, Integers, Sequences, FiniteSets, TLC

CONSTANTS Deviations,   \* subset of {"DeleteDupStalls", "MaskNeedsSorted", "RechunkTrailingEmpty"}
          CostHole,     \* bytes per hole of RangeWithHoles            (code: 4)
          CostBitDen,   \* ids per byte of RangeWithBitmap             (code: 8)
          CostArr       \* bytes per value of SortedArray              (code: 2)

(***************************************************************************)
(* generic helpers                                                         *)
(***************************************************************************)
SeqRange(s) == {s[i] : i \in DOMAIN s}
RECURSIVE SumSeq(_)
SumSeq(s) == IF s = <<>> THEN 0 ELSE Head(s) + SumSeq(Tail(s))
RECURSIVE Concat(_)
Concat(ss) == IF ss = <<>> THEN <<>> ELSE Head(ss) \o Concat(Tail(ss))
SetMin(S) == CHOOSE x \in S : \A y \in S : x <= y
SetMax(S) == CHOOSE x \in S : \A y \in S : x >= y
RECURSIVE AscSeq(_)
AscSeq(S) == IF S = {} THEN <<>> ELSE LET m == SetMin(S) IN <<m>> \o AscSeq(S \ {m})
Ascending(s) == \A i \in 1..(Len(s)-1) : s[i] < s[i+1]
NonDecreasing(s) == \A i \in 1..(Len(s)-1) : s[i] <= s[i+1]
Injective(s) == \A i, j \in DOMAIN s : i # j => s[i] # s[j]
Min2(a, b) == IF a < b THEN a ELSE b
CeilDiv(a, b) == (a + b - 1) \div b

(***************************************************************************)
(* (1) The oracle: operations on plain lists                               *)
(***************************************************************************)
\* delete(ids): remove a set of row ids (ids that are not present are ignored)
DeleteIds(xs, S) == SelectSeq(xs, LAMBDA x : x \notin S)
\* mask(positions): delete by (0-based) position
MaskPos(xs, P) ==
   LET keep == SelectSeq([i \in 1..Len(xs) |-> i], LAMBDA i : (i-1) \notin P)
   IN [j \in 1..Len(keep) |-> xs[keep[j]]]
\* slice(offset, len), offset + len <= Len(xs)
Slice(xs, off, len) == SubSeq(xs, off+1, off+len)
\* select(sorted offsets): out-of-bounds offsets are ignored (documented)
Select(xs, sel) ==
   LET ok == SelectSeq(sel, LAMBDA i : i < Len(xs)) IN [j \in 1..Len(ok) |-> xs[ok[j]+1]]
\* get(index): -1 stands for None
Get(xs, i) == IF i >= 0 /\ i < Len(xs) THEN xs[i+1] ELSE -1
\* rechunk_sequences(concatenation = xs, chunk sizes, allow_incomplete):
\*   too many ids for the chunk sizes is always an error; too few is an error
\*   unless allow_incomplete, in which case the later chunks are short / empty.
RechunkOk(xs, sizes, allowInc) ==
   IF SumSeq(sizes) = Len(xs) THEN TRUE
   ELSE IF SumSeq(sizes) > Len(xs) THEN allowInc ELSE FALSE
RechunkChunks(xs, sizes) ==
   [k \in 1..Len(sizes) |->
      LET start == Min2(Len(xs), SumSeq(SubSeq(sizes, 1, k-1)))
          end   == Min2(Len(xs), start + sizes[k])
      IN SubSeq(xs, start+1, end)]
\* the row id index: a layout is a list of fragments <<ids, dv>> (dv = set of
\* deleted 0-based positions); at most one *live* occurrence of every id.
LiveUnique(layout) ==
   \A f, g \in DOMAIN layout : \A i \in DOMAIN layout[f][1], j \in DOMAIN layout[g][1] :
      (layout[f][1][i] = layout[g][1][j] /\ (i-1) \notin layout[f][2] /\ (j-1) \notin layout[g][2])
         => (f = g /\ i = j)
\* <<fragment index (1-based), offset>> of the live occurrence of id, or <<-1,-1>>
IndexGet(layout, id) ==
   LET hits == UNION {{<<f, i-1>> : i \in {j \in DOMAIN layout[f][1] :
                                            layout[f][1][j] = id /\ (j-1) \notin layout[f][2]}}
                      : f \in DOMAIN layout}
   IN IF hits = {} THEN <<-1, -1>> ELSE CHOOSE h \in hits : TRUE

(***************************************************************************)
(* (2) Constructive model: segments                                        *)
(***************************************************************************)
Kinds == {"R", "H", "B", "S", "A"}   \* Range, RangeWithHoles, RangeWithBitmap, SortedArray, Array
Seg(k, lo, hi, holes, arr) == [k |-> k, lo |-> lo, hi |-> hi, holes |-> holes, arr |-> arr]
EmptyRange == Seg("R", 0, 0, {}, <<>>)

SegIter(s) == IF s.k \in {"R", "H", "B"} THEN AscSeq((s.lo..(s.hi-1)) \ s.holes) ELSE s.arr
SegLen(s)  == IF s.k \in {"R", "H", "B"} THEN (s.hi - s.lo) - Cardinality(s.holes) ELSE Len(s.arr)
\* range(): <<min, max>> or <<-1,-1>> for the empty range
SegBounds(s) == IF s.k = "R" /\ s.hi = s.lo THEN <<-1, -1>>
                ELSE IF s.k \in {"R", "H", "B"} THEN <<s.lo, s.hi - 1>>
                ELSE IF s.k = "S" THEN <<s.arr[1], s.arr[Len(s.arr)]>>
                ELSE <<SetMin(SeqRange(s.arr)), SetMax(SeqRange(s.arr))>>
\* position(val): 0-based or -1
SegPosition(s, v) ==
   IF s.k \in {"R", "H", "B"}
   THEN IF v >= s.lo /\ v < s.hi /\ v \notin s.holes
        THEN (v - s.lo) - Cardinality({h \in s.holes : h < v}) ELSE -1
   ELSE IF \E i \in DOMAIN s.arr : s.arr[i] = v
        THEN (CHOOSE i \in DOMAIN s.arr : s.arr[i] = v /\ \A j \in 1..(i-1) : s.arr[j] # v) - 1 ELSE -1
SegGet(s, i) == Get(SegIter(s), i)

\* Which encodings can represent a list at all
Contiguous(xs) == Ascending(xs) /\ (xs = <<>> \/ xs[Len(xs)] - xs[1] + 1 = Len(xs))
Representable(xs) ==
   (IF Contiguous(xs) THEN {"R"} ELSE {})
   \cup (IF Ascending(xs) /\ xs # <<>> THEN {"H", "B", "S"} ELSE {})
   \cup (IF xs # <<>> THEN {"A"} ELSE {})
Build(k, xs) ==
   CASE k = "R" -> IF xs = <<>> THEN EmptyRange ELSE Seg("R", xs[1], xs[Len(xs)] + 1, {}, <<>>)
     [] k \in {"H", "B"} -> Seg(k, xs[1], xs[Len(xs)] + 1, (xs[1]..xs[Len(xs)]) \ SeqRange(xs), <<>>)
     [] OTHER -> Seg(k, 0, 0, {}, xs)
\* from_stats_and_sequence: the encoding the code picks (first minimum of the three size estimates)
ChooseKind(xs, sorted) ==
   IF ~sorted THEN "A"
   ELSE IF xs = <<>> THEN "R"
   ELSE LET n     == Len(xs)
            span  == xs[n] - xs[1] + 1
            holes == span - n
            sh == 24 + CostHole * holes
            sb == 24 + CeilDiv(span, CostBitDen)
            sa == 24 + CostArr * n
        IN IF holes = 0 THEN "R"
           ELSE IF sh <= sb /\ sh <= sa THEN "H"
           ELSE IF sb <= sa THEN "B" ELSE "S"
FromSlice(xs) == Build(ChooseKind(xs, Ascending(xs)), xs)

\* U64Segment::delete(vals): vals are in the segment, ordered by appearance.  The code walks the
\* segment with a one-element look-ahead on vals; a repeated val is never consumed and stalls the walk.
RECURSIVE Walk(_, _)
Walk(it, vals) == IF it = <<>> THEN <<>>
                  ELSE IF vals # <<>> /\ Head(vals) = Head(it) THEN Walk(Tail(it), Tail(vals))
                  ELSE <<Head(it)>> \o Walk(Tail(it), vals)
SegDelete(s, vals) ==
   LET ys == IF "DeleteDupStalls" \in Deviations THEN Walk(SegIter(s), vals)
             ELSE DeleteIds(SegIter(s), SeqRange(vals))
   IN FromSlice(ys)
\* U64Segment::mask(local positions): Array stays Array, everything else is re-chosen as sorted.
\* The code consumes the positions with the same one-element look-ahead while enumerating the
\* segment, which is only right for ascending positions.
RECURSIVE WalkPos(_, _, _)
WalkPos(it, i, ps) == IF it = <<>> THEN <<>>
                      ELSE IF ps # <<>> /\ Head(ps) = i THEN WalkPos(Tail(it), i+1, Tail(ps))
                      ELSE <<Head(it)>> \o WalkPos(Tail(it), i+1, ps)
SegMask(s, ps) ==
   IF ps = <<>> THEN s
   ELSE IF Len(ps) = SegLen(s) THEN EmptyRange
   ELSE LET ys == IF "MaskNeedsSorted" \in Deviations THEN WalkPos(SegIter(s), 0, ps)
                  ELSE MaskPos(SegIter(s), SeqRange(ps))
        IN Build(ChooseKind(ys, s.k # "A"), ys)
\* U64Segment::slice
SegSlice(s, off, len) == IF len = 0 THEN EmptyRange ELSE FromSlice(Slice(SegIter(s), off, Min2(len, SegLen(s) - off)))

(***************************************************************************)
(* (2) Constructive model: sequences of segments                           *)
(***************************************************************************)
SeqIter(q) == Concat([i \in DOMAIN q |-> SegIter(q[i])])
SeqLen(q)  == SumSeq([i \in DOMAIN q |-> SegLen(q[i])])
\* extend: two adjacent Range segments are merged
SeqExtend(q, r) ==
   IF q # <<>> /\ r # <<>> /\ q[Len(q)].k = "R" /\ r[1].k = "R" /\ q[Len(q)].hi = r[1].lo
   THEN SubSeq(q, 1, Len(q)-1) \o <<Seg("R", q[Len(q)].lo, r[1].hi, {}, <<>>)>> \o Tail(r)
   ELSE q \o r
\* delete(ids): find_ids collects, per segment, the matching positions (one per requested id
\* occurrence), sorted; segments without a match are kept as they are
RECURSIVE SortP(_)     \* ascending, multiplicity kept
SortP(ps) == IF ps = <<>> THEN <<>>
             ELSE LET m == SetMin(SeqRange(ps))
                  IN SelectSeq(ps, LAMBDA p : p = m) \o SortP(SelectSeq(ps, LAMBDA p : p # m))
SeqDelete(q, ids) ==
   [i \in DOMAIN q |->
      LET b == SegBounds(q[i])
          poss == [j \in DOMAIN ids |-> IF b[1] # -1 /\ ids[j] >= b[1] /\ ids[j] <= b[2]
                                        THEN SegPosition(q[i], ids[j]) ELSE -1]
          found == SelectSeq(poss, LAMBDA p : p # -1)
          vals == [j \in 1..Len(found) |-> SegGet(q[i], SortP(found)[j])]
      IN IF found = <<>> THEN q[i] ELSE SegDelete(q[i], vals)]
\* mask(positions): positions are split per segment by a running cutoff; emptied segments are dropped
RECURSIVE CutOffs(_, _)
CutOffs(q, acc) == IF q = <<>> THEN <<>> ELSE <<acc>> \o CutOffs(Tail(q), acc + SegLen(Head(q)))
SeqMask(q, ps) ==
   LET offs == CutOffs(q, 0)
       masked == [i \in DOMAIN q |->
                    LET local == SelectSeq(ps, LAMBDA p : p >= offs[i] /\ p < offs[i] + SegLen(q[i]))
                    IN SegMask(q[i], [j \in DOMAIN local |-> local[j] - offs[i]])]
   IN SelectSeq(masked, LAMBDA s : SegLen(s) > 0)
\* get(index)
RECURSIVE SeqGetR(_, _)
SeqGetR(q, i) == IF q = <<>> THEN -1
                 ELSE IF i < SegLen(Head(q)) THEN SegGet(Head(q), i)
                 ELSE SeqGetR(Tail(q), i - SegLen(Head(q)))
SeqGet(q, i) == SeqGetR(q, i)
\* slice(offset, len) then iter(): first segment index / offset_start, last segment index /
\* offset_last exactly as the two loops of RowIdSequence::slice compute them
RECURSIVE FindStart(_, _, _)
FindStart(q, k, off) ==     \* -> <<segment index (1-based), offset_start>>
   IF k > Len(q) THEN <<k, off>>
   ELSE IF off < SegLen(q[k]) THEN <<k, off>> ELSE FindStart(q, k+1, off - SegLen(q[k]))
RECURSIVE FindLast(_, _, _)
FindLast(q, k, last) ==
   IF k > Len(q) THEN <<k, last>>
   ELSE IF last <= SegLen(q[k]) THEN <<k, last>> ELSE FindLast(q, k+1, last - SegLen(q[k]))
SeqSliceIter(q, off, len) ==
   IF len = 0 THEN <<>>
   ELSE LET st == FindStart(q, 1, off)
            la == FindLast(q, st[1], st[2] + len)
            a == st[1]
            b == la[1]
        IN IF a = b THEN SubSeq(SegIter(q[a]), st[2] + 1, la[2])
           ELSE SubSeq(SegIter(q[a]), st[2] + 1, SegLen(q[a]))
                \o Concat([k \in 1..(b - a - 1) |-> SegIter(q[a + k])])
                \o SubSeq(SegIter(q[b]), 1, la[2])
\* select(sorted offsets): one forward cursor <<segment index, rows_passed>>
RECURSIVE SelectR(_, _, _, _)
SelectR(q, k, passed, sel) ==
   IF sel = <<>> \/ k > Len(q) THEN <<>>
   ELSE IF Head(sel) - passed >= SegLen(q[k]) THEN SelectR(q, k+1, passed + SegLen(q[k]), sel)
   ELSE <<SegGet(q[k], Head(sel) - passed)>> \o SelectR(q, k, passed, Tail(sel))
SeqSelect(q, sel) == SelectR(q, 1, 0, sel)

\* rechunk_sequences over the flattened segments q.  State of the loop: next segment k, offset
\* into it, remaining of the current chunk, the chunk built so far; result <<ok, chunks>>.
RECURSIVE ChunkR(_, _, _, _, _, _)
ChunkR(q, k, segoff, remaining, cur, allowInc) ==   \* -> <<status, chunk, k', segoff'>>
   IF remaining = 0 THEN <<"ok", cur, k, segoff>>
   ELSE LET inseg == IF k > Len(q) THEN 0 ELSE SegLen(q[k]) - segoff IN
        IF inseg = 0
        THEN IF k <= Len(q) THEN ChunkR(q, k+1, 0, remaining, cur, allowInc)
             ELSE IF allowInc THEN <<"ok", cur, k, segoff>> ELSE <<"few", cur, k, segoff>>
        ELSE IF inseg > remaining
        THEN <<"ok", SeqExtend(cur, <<SegSlice(q[k], segoff, remaining)>>), k, segoff + remaining>>
        ELSE ChunkR(q, k+1, 0, remaining - inseg,
                    SeqExtend(cur, <<SegSlice(q[k], segoff, inseg)>>), allowInc)
RECURSIVE RechunkR(_, _, _, _, _, _)
RechunkR(q, k, segoff, sizes, out, allowInc) ==
   IF sizes = <<>>
   THEN \* the code: "too many" iff a segment is left to peek at; intended: iff an id is left
        LET leftover == IF "RechunkTrailingEmpty" \in Deviations THEN k <= Len(q)
                        ELSE k <= Len(q) /\ SumSeq([j \in 1..(Len(q) - k + 1) |-> SegLen(q[k + j - 1])]) - segoff > 0
        IN IF leftover THEN <<"many", <<>>>> ELSE <<"ok", out>>
   ELSE LET c == ChunkR(q, k, segoff, Head(sizes), <<>>, allowInc)
        IN IF c[1] # "ok" THEN <<c[1], <<>>>>
           ELSE RechunkR(q, c[3], c[4], Tail(sizes), Append(out, c[2]), allowInc)
SeqRechunk(q, sizes, allowInc) == RechunkR(q, 1, 0, sizes, <<>>, allowInc)

(***************************************************************************)
(* (2) Constructive model: RowIdIndex                                      *)
(* layoutC: list of <<segments, dv>>; fragment f's rows are addressed      *)
(* <<f, offset>>.                                                          *)
(***************************************************************************)
\* decompose_sequence: one chunk <<lo, hi, ids, addrs>> per segment with a live row
RECURSIVE DecomposeR(_, _, _, _)
DecomposeR(f, q, dv, off) ==
   IF q = <<>> THEN <<>>
   ELSE LET it == SegIter(Head(q))
            live == SelectSeq([i \in 1..Len(it) |-> i], LAMBDA i : (off + i - 1) \notin dv)
            ids == [j \in 1..Len(live) |-> it[live[j]]]
            addrs == [j \in 1..Len(live) |-> <<f, off + live[j] - 1>>]
            rest == DecomposeR(f, Tail(q), dv, off + Len(it))
        IN IF live = <<>> THEN rest
           ELSE <<<<SetMin(SeqRange(ids)), SetMax(SeqRange(ids)), ids, addrs>>>> \o rest
Decompose(layoutC) == Concat([f \in DOMAIN layoutC |-> DecomposeR(f, layoutC[f][1], layoutC[f][2], 0)])
\* prep_index_chunks + merge_overlapping_chunks: chunks sorted by start; a chunk whose start is
\* <= the running end joins the current group; groups are merged by sorting the (id, addr) pairs
RECURSIVE SortChunks(_)
SortChunks(cs) == IF cs = <<>> THEN <<>>
                  ELSE LET m == SetMin({cs[i][1] : i \in DOMAIN cs})
                           i0 == CHOOSE i \in DOMAIN cs : cs[i][1] = m
                       IN <<cs[i0]>> \o SortChunks([j \in 1..(Len(cs)-1) |-> IF j < i0 THEN cs[j] ELSE cs[j+1]])
RECURSIVE GroupR(_, _, _)
GroupR(cs, cur, curEnd) ==     \* -> list of groups (each a list of chunks)
   IF cs = <<>> THEN (IF cur = <<>> THEN <<>> ELSE <<cur>>)
   ELSE IF cur # <<>> /\ Head(cs)[1] <= curEnd
        THEN GroupR(Tail(cs), Append(cur, Head(cs)), IF Head(cs)[2] > curEnd THEN Head(cs)[2] ELSE curEnd)
        ELSE (IF cur = <<>> THEN <<>> ELSE <<cur>>) \o GroupR(Tail(cs), <<Head(cs)>>, Head(cs)[2])
Groups(layoutC) == GroupR(SortChunks(Decompose(layoutC)), <<>>, -1)
\* get(id): the group whose coverage contains id, the position of id among its ids, the address there
IndexGetC(layoutC, id) ==
   LET gs == Groups(layoutC)
       cover(g) == <<SetMin({g[i][1] : i \in DOMAIN g}), SetMax({g[i][2] : i \in DOMAIN g})>>
       hit == {k \in DOMAIN gs : cover(gs[k])[1] <= id /\ id <= cover(gs[k])[2]}
   IN IF hit = {} THEN <<-1, -1>>
      ELSE LET g == gs[CHOOSE k \in hit : TRUE]
               ids == Concat([i \in DOMAIN g |-> g[i][3]])
               ads == Concat([i \in DOMAIN g |-> g[i][4]])
           IN IF \E j \in DOMAIN ids : ids[j] = id
              THEN ads[CHOOSE j \in DOMAIN ids : ids[j] = id] ELSE <<-1, -1>>
=============================================================================
