---------------------------- MODULE SchemaAlgebra ----------------------------
(* Property C43, state machine.

   Phase "build": a field tree is built node by node in pre-order (every
   well-formed tree within the bounds is reached exactly once).
   Phase "ops": a working schema W (a set of field ids of the tree, initially
   all of them) is transformed by the schema operations -- exclude, intersect,
   merge with an operand sub-schema, projection by ids, projection by column
   paths (given as character strings that are parsed and resolved).

   Invariants
     ImplIsSetOp            the per-field, name-matched procedure yields the set-operation result (ghost G)
     ClosedUnderAncestors   every schema produced keeps the ancestors of its fields
     PathFindsField         the formatted path of every field parses and resolves to exactly that field
     QuoteRoundTrip         ParsePath(FormatPath(names)) = names          (checked once, initial state)
     AlgebraLaws            exclude / intersect / merge on operands satisfy the set identities
   Scenario export: every finished tree is printed once (GenPrint).                                *)
EXTENDS SchemaAlgebraOps, Json

CONSTANTS MaxOps, Deviations

VARIABLES tree, phase, W, nops,
          G         \* ghost: the same schema computed by the plain set operations on field ids
vars == <<tree, phase, W, nops, G>>

Init == tree = <<>> /\ phase = "build" /\ W = {} /\ nops = 0 /\ G = {}

Last(t) == Len(t)
OkToAdd(t, p, n, k) ==
   /\ Len(t) < MaxNodes
   /\ (Len(t) = 0 => p = 0)
   /\ (Len(t) > 0 => (p = 0 \/ p = Last(t) \/ p \in AncOf(t, Last(t))))
   /\ (p = 0 => n \in TopNames)
   /\ (p # 0 => /\ t[p].k \in {"struct", "list"}
                /\ (t[p].k = "list" => n = ITEM /\ k \in {"leaf", "struct"} /\ Children(t, p) = {})
                /\ (t[p].k = "struct" => n \in NestedNames)
                /\ Cardinality(AncOf(t, p)) + 2 <= MaxDepth)
   /\ \A j \in Nodes(t) : t[j].p = p => t[j].n < n
   \* a nested node can only be left (by attaching elsewhere) once it has a child
   /\ (Len(t) > 0 /\ p # Last(t) /\ t[Last(t)].k # "leaf" => FALSE)
   /\ (k # "leaf" => Cardinality(IF p = 0 THEN {} ELSE AncOf(t, p) \cup {p}) + 2 <= MaxDepth)

AddNode == /\ phase = "build"
           /\ \E p \in 0 .. Len(tree), n \in 1 .. 5, k \in Kinds :
                /\ OkToAdd(tree, p, n, k)
                /\ tree' = Append(tree, [p |-> p, n |-> n, k |-> k])
           /\ UNCHANGED <<phase, W, nops, G>>
Finish == /\ phase = "build" /\ tree # <<>> /\ WellFormed(tree)
          /\ phase' = "ops" /\ W' = Nodes(tree) /\ G' = Nodes(tree) /\ UNCHANGED <<tree, nops>>

\* W is computed the way the code works (per top-level field, matched by name), G by the set operation
Step(X, Y) == /\ phase = "ops" /\ nops < MaxOps /\ nops' = nops + 1 /\ W' = X /\ G' = Y /\ UNCHANGED <<tree, phase>>
DoExclude   == \E B \in Operands(tree) : Step(ExcludeImpl(tree, W, B, Deviations), ExcludeSem(tree, G, B))
DoIntersect == \E B \in Operands(tree) : Step(IntersectImpl(tree, W, B, Deviations), IntersectSem(tree, G, B))
DoMerge     == \E B \in Operands(tree) : Step(MergeImpl(tree, W, B, Deviations), MergeSem(tree, G, B))
ByIdsOn(S, ids, all) == ByIdsSem(tree, ids, all) \cap (S \cup UNION {DescOf(tree, i) : i \in ids})
DoByIds     == \E ids \in SUBSET W, all \in BOOLEAN : Step(ByIdsOn(W, ids, all), ByIdsOn(G, ids, all))
DoProject   == \E i \in W : Step(ProjectImpl(tree, {Resolve(tree, FieldPath(tree, i))}, Deviations),
                                  ProjectSem(tree, {i}))

Next == AddNode \/ Finish \/ DoExclude \/ DoIntersect \/ DoMerge \/ DoByIds \/ DoProject
Spec == Init /\ [][Next]_vars

TypeOK == phase \in {"build", "ops"} /\ W \subseteq Nodes(tree)
\* C43: the operations behave as the set operations on field ids
ImplIsSetOp == W = G
ClosedUnderAncestors == phase = "ops" => Up(tree, W) = W
PathFindsField == (phase = "ops" /\ nops = 0) =>
   \A i \in Nodes(tree) : /\ Resolve(tree, FieldPath(tree, i)) = i
                          /\ ParsePath(FieldPath(tree, i)) = PathNames(tree, i)
AlgebraLaws == (phase = "ops" /\ nops = 0) =>
   \A A \in Operands(tree), B \in Operands(tree) :
      /\ ExcludeSem(tree, A, B) \cup IntersectSem(tree, A, B) = A
      /\ Leaves(tree) \cap ExcludeSem(tree, A, B) \cap IntersectSem(tree, A, B) = {}
      /\ MergeSem(tree, ExcludeSem(tree, A, B), B) = A \cup B
      /\ Up(tree, ExcludeSem(tree, A, B)) = ExcludeSem(tree, A, B)
      /\ \A i \in A : ProjectSem(tree, {i}) = ByIdsSem(tree, {i}, TRUE)
      /\ \A ids \in SUBSET Nodes(tree) : Up(tree, ids) \subseteq ByIdsSem(tree, ids, FALSE)
                                         /\ ByIdsSem(tree, ids, FALSE) \subseteq ByIdsSem(tree, ids, TRUE)
SmallNames == {<<"a">>, <<".">>, <<"`">>, <<"a", ".">>, <<"`", "a">>, <<"a", "`">>, <<".", "`">>, <<"`", "`">>,
               <<"a", ".", "b">>, <<"a", "`", "b">>, <<"`", ".", "`">>, <<".", ".">>}
QuoteRoundTrip == tree = <<>> =>
   /\ \A x \in SmallNames : ParsePath(FormatPath(<<x>>)) = <<x>>
   /\ \A x \in SmallNames, y \in SmallNames : ParsePath(FormatPath(<<x, y>>)) = <<x, y>>
   /\ ParsePath(<<>>) = ERR /\ ParsePath(<<".">>) = ERR /\ ParsePath(<<"a", ".">>) = ERR
   /\ ParsePath(<<"a", "`", "b">>) = ERR /\ ParsePath(<<"`", "a">>) = ERR

GenPrint == (phase = "ops" /\ nops = 0) => PrintT(<<"SCN", ToJson(tree)>>)
=============================================================================
