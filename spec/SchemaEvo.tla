------------------------------ MODULE SchemaEvo ------------------------------
(* Schema evolution (C14): adding columns from expressions, renaming, casting
   and dropping columns, interleaved with appends, deletes and compaction.

   A table is a sequence of rows in scan order; a row maps column names to
   values (NULL = -1).  The schema is a sequence of [name, id]; field ids are
   handed out from a counter and never reused, which is what makes dropped data
   unreachable: a column re-added under a dropped name gets a new id and reads
   its new values.  Ghost `everIds` remembers every field id that was ever part
   of the schema.

   Properties
     FieldIdsUnique             ids of the current schema are distinct
     NoFieldIdReuse             an added column's id was never used before
     EvolutionPreservesOthers   (action property) a schema operation leaves every
                                other column's values and the row order unchanged
     AddedValuesExact           an added column holds exactly the requested values
     DroppedDataNeverResurfaces follows from NoFieldIdReuse + AddedValuesExact     *)
EXTENDS Sql3VL, Sequences, FiniteSets, TLC, Json, SequencesExt

CONSTANTS MaxSteps, ColNames

VARIABLES schema, rows, nextField, everIds, nextKey, steps, last, hist
vars == <<schema, rows, nextField, everIds, nextKey, steps, last, hist>>
view == <<schema, rows, nextField, everIds, nextKey, steps, last>>

Names == {schema[i].name : i \in 1..Len(schema)}
Ids == {schema[i].id : i \in 1..Len(schema)}
NonKey == Names \ {"id"}

Init == /\ schema = <<[name |-> "id", id |-> 0], [name |-> "val", id |-> 1]>>
        /\ rows = <<[id |-> 1, val |-> 1], [id |-> 2, val |-> NULL], [id |-> 3, val |-> 2]>>
        /\ nextField = 2 /\ everIds = {0, 1} /\ nextKey = 4 /\ steps = 0
        /\ last = [op |-> "init"] /\ hist = <<>>

Exprs(cols) == {<<"lit", 7>>, <<"lit", NULL>>} \cup {<<"plus", c, 1>> : c \in cols} \cup {<<"col", c>> : c \in cols}

AddCol(n, e) ==
  /\ n \notin Names
  /\ schema' = Append(schema, [name |-> n, id |-> nextField])
  /\ rows' = [i \in 1..Len(rows) |-> [c \in (DOMAIN rows[i]) \cup {n} |-> IF c = n THEN EvalExpr(e, rows[i]) ELSE rows[i][c]]]
  /\ nextField' = nextField + 1 /\ everIds' = everIds \cup {nextField}
  /\ last' = [op |-> "add_column", name |-> n, setexpr |-> e]
  /\ UNCHANGED nextKey
\* a column added by a key join (Dataset::merge): a source of <<key, value>> rows; NULL where the join finds no match
\* (the second source matches every key that can occur and holds no NULL: lance's Dataset::merge refuses to write NULLs
\*  into primitive columns, so a partial source is answered with an error -- which must then have no effect)
Joins == {<<<<1, 8>>, <<3, NULL>>>>,
          <<<<1, 8>>, <<2, 9>>, <<3, 7>>, <<4, 6>>, <<5, 0>>, <<6, 4>>, <<7, 3>>, <<8, 2>>>>}
JoinVal(src, k) == IF \E i \in 1..Len(src) : src[i][1] = k
                   THEN src[CHOOSE i \in 1..Len(src) : src[i][1] = k][2] ELSE NULL
AddJoin(n, src) ==
  /\ n \notin Names
  /\ schema' = Append(schema, [name |-> n, id |-> nextField])
  /\ rows' = [i \in 1..Len(rows) |-> [c \in (DOMAIN rows[i]) \cup {n} |-> IF c = n THEN JoinVal(src, rows[i].id) ELSE rows[i][c]]]
  /\ nextField' = nextField + 1 /\ everIds' = everIds \cup {nextField}
  /\ last' = [op |-> "join_column", name |-> n, src |-> src]
  /\ UNCHANGED nextKey
DropCol(n) ==
  /\ n \in NonKey /\ Cardinality(Names) > 1
  /\ schema' = SelectSeq(schema, LAMBDA f : f.name # n)
  /\ rows' = [i \in 1..Len(rows) |-> [c \in (DOMAIN rows[i]) \ {n} |-> rows[i][c]]]
  /\ last' = [op |-> "drop_column", name |-> n]
  /\ UNCHANGED <<nextField, everIds, nextKey>>
Rename(n, m) ==
  /\ n \in NonKey /\ m \notin Names
  /\ schema' = [i \in 1..Len(schema) |-> IF schema[i].name = n THEN [schema[i] EXCEPT !.name = m] ELSE schema[i]]
  /\ rows' = [i \in 1..Len(rows) |-> [c \in ((DOMAIN rows[i]) \ {n}) \cup {m} |-> IF c = m THEN rows[i][n] ELSE rows[i][c]]]
  /\ last' = [op |-> "rename_column", name |-> n, to |-> m]
  /\ UNCHANGED <<nextField, everIds, nextKey>>
AppendRow(v) ==
  /\ rows' = Append(rows, [c \in Names |-> IF c = "id" THEN nextKey ELSE v])
  /\ nextKey' = nextKey + 1
  /\ last' = [op |-> "append", key |-> nextKey, fill |-> v]
  /\ UNCHANGED <<schema, nextField, everIds>>
DeleteRow(k) ==
  /\ \E i \in 1..Len(rows) : rows[i].id = k
  /\ rows' = SelectSeq(rows, LAMBDA r : r.id # k)
  /\ last' = [op |-> "delete", key |-> k]
  /\ UNCHANGED <<schema, nextField, everIds, nextKey>>
Compact ==
  /\ last' = [op |-> "compact"]
  /\ UNCHANGED <<schema, rows, nextField, everIds, nextKey>>

Next == /\ steps < MaxSteps /\ steps' = steps + 1
        /\ \/ \E n \in ColNames, e \in Exprs(NonKey) : AddCol(n, e)
           \/ \E n \in ColNames, j \in Joins : AddJoin(n, j)
           \/ \E n \in ColNames \cup {"val"} : DropCol(n)
           \/ \E n \in ColNames \cup {"val"}, m \in ColNames : Rename(n, m)
           \/ \E v \in {5, NULL} : AppendRow(v)
           \/ \E k \in 1..5 : DeleteRow(k)
           \/ Compact
        /\ hist' = Append(hist, last')
Spec == Init /\ [][Next]_vars

FieldIdsUnique == \A i, j \in 1..Len(schema) : i # j => schema[i].id # schema[j].id
NoFieldIdReuse == [][\A i \in 1..Len(schema') : (schema'[i].id \notin Ids) => schema'[i].id \notin everIds]_vars
EvolutionPreservesOthers ==
  [][last'.op \in {"add_column", "join_column", "drop_column", "rename_column"} =>
        /\ Len(rows') = Len(rows)
        /\ \A i \in 1..Len(rows) : \A c \in (DOMAIN rows[i]) \cap (DOMAIN rows'[i]) :
              (last'.op = "rename_column" /\ c = last'.to) \/ rows'[i][c] = rows[i][c]]_vars
RowsMatchSchema == \A i \in 1..Len(rows) : DOMAIN rows[i] = Names
TypeOK == Len(schema) >= 1 /\ schema[1].name = "id"

GenPrint == (steps = MaxSteps) => PrintT(<<"SCN", ToJson(hist)>>)
=============================================================================
