------------------------------- MODULE Spill -------------------------------
(* Property C41 "Replay spills and stream chunking deliver every batch exactly
   once".

   Mode "spill": one SpillSender and up to MaxReaders SpillReceiver streams.
     Fine = TRUE : the sender's write() is split into its await points
                   (spill transition / append to file / publish status) and
                   readers interleave with them -- the design under real
                   concurrency;
     Fine = FALSE: write() is atomic -- the grain at which the driver
                   (vh_spill, one current-thread runtime, one actor at a
                   time) can schedule; used to generate the schedules that are
                   replayed on the real code (GenPrint).
   Mode "chunk": every input (batch sizes 0..MaxBatchRows, at most MaxBatches
     batches) and chunk size 1..MaxChunk; TLC checks that the transcriptions of
     BatchReaderChunker and StrictBatchSizeStream satisfy the Chunk law.      *)
EXTENDS SpillOps, TLC, Json

CONSTANTS Mode, Fine,
          Limits,        \* candidate values of limit2 (twice the memory limit in batches)
          MaxBatches, MaxReaders, MaxSteps,
          AllowError,    \* may the sender call send_error
          MaxBatchRows, MaxChunk

VARIABLES sp, rds, hist, chunkIn
vars == <<sp, rds, hist, chunkIn>>

Sizes == UNION {[1..k -> 0..MaxBatchRows] : k \in 0..MaxBatches}

Init == /\ hist = <<>> /\ rds = <<>>
        /\ IF Mode = "chunk"
           THEN /\ sp = InitS(0)
                /\ \E xs \in Sizes, n \in 1..MaxChunk : chunkIn = <<xs, n>>
           ELSE /\ chunkIn = <<>>
                /\ \E l \in Limits : sp = InitS(l)

Active == Mode # "chunk" /\ Len(hist) < MaxSteps
Log(step) == hist' = Append(hist, step)

\* ---- sender ----
Write == /\ Active /\ sp.sst \in {"Buffering", "Spilling"} /\ sp.sub = <<"none">> /\ sp.nw < MaxBatches
         /\ sp' = IF Fine THEN WBegin(sp, sp.nw) ELSE WriteAllSteps(sp, sp.nw)
         /\ Log(<<"write", sp.nw>>) /\ UNCHANGED <<rds, chunkIn>>
WriteAppend  == /\ Active /\ Fine /\ sp.sub[1] = "append"  /\ sp' = WAppend(sp)  /\ UNCHANGED <<rds, hist, chunkIn>>
WritePublish == /\ Active /\ Fine /\ sp.sub[1] = "publish" /\ sp' = WPublish(sp) /\ UNCHANGED <<rds, hist, chunkIn>>
\* write()/finish() after finish() or send_error() return an error and change nothing
Rejected == /\ Active /\ sp.sst \in {"Finished", "Errored"}
            /\ \E op \in {"write", "finish"} :
                  /\ \A i \in 1..Len(hist) : hist[i] # <<op, -1>>      \* once each is enough
                  /\ Log(<<op, -1>>)
            /\ UNCHANGED <<sp, rds, chunkIn>>
Finish == /\ Active /\ sp.sst \in {"Buffering", "Spilling"} /\ sp.sub = <<"none">>
          /\ sp' = FinishS(sp) /\ Log(<<"finish", 0>>) /\ UNCHANGED <<rds, chunkIn>>
\* (send_error after finish() is not generated: readers that already ended cannot be told)
Error == /\ Active /\ AllowError /\ sp.sst \in {"Buffering", "Spilling"} /\ sp.sub = <<"none">>
         /\ sp' = ErrorS(sp) /\ Log(<<"error", 0>>) /\ UNCHANGED <<rds, chunkIn>>
\* ---- readers ----
OpenReader == /\ Active /\ Len(rds) < MaxReaders
              /\ rds' = Append(rds, InitR) /\ Log(<<"open", Len(rds) + 1>>) /\ UNCHANGED <<sp, chunkIn>>
ReaderNext == \E r \in 1..Len(rds) :
                 /\ Active /\ rds[r].state \in {"open", "waiting"}
                 /\ LET res == ReadNext(sp, rds[r]) IN
                    \* a reader that is already waiting is only polled again when it can make progress
                    /\ (rds[r].state = "waiting" => res[2] # <<"pending">>)
                    /\ rds' = [rds EXCEPT ![r] = res[1]]
                 /\ Log(<<"next", r>>) /\ UNCHANGED <<sp, chunkIn>>

Next == Write \/ WriteAppend \/ WritePublish \/ Rejected \/ Finish \/ Error \/ OpenReader \/ ReaderNext
Spec == Init /\ [][Next]_vars

\* ---------------------------------------------------------------- C41
EveryReaderSeesAllInOrder ==
  \A r \in 1..Len(rds) : SeenIsPrefix(sp, rds[r]) /\ EndMeansAll(sp, rds[r])
InvPublishedOnDisk == PublishedOnDisk(sp)
\* once finished, every reader that keeps reading gets everything: a poll never blocks and never hits EOF
ReadsNeverFail ==
  \A r \in 1..Len(rds) : rds[r].state \in {"open", "waiting"} =>
      LET res == ReadNext(sp, rds[r])[2] IN
      /\ res # <<"eof">>
      /\ (sp.sst \in {"Finished", "Errored"} => res # <<"pending">>)
ChunkLawHolds ==
  Mode = "chunk" =>
     LET xs == Rows(chunkIn[1], 0)  n == chunkIn[2]
         cs == ChunkStream(xs, n) IN
     /\ ChunkLaw(xs, n, ChunkConcat(xs, n))
     /\ ChunkConcat(xs, n) = Split(Flat(xs), n)
     /\ \A k \in 1..Len(cs) : \A j \in 1..Len(cs[k]) : Len(cs[k][j]) > 0     \* no empty slices
     /\ ChunkLaw(xs, n, StrictStream(xs, n))
     /\ StrictStream(xs, n) = Split(Flat(xs), n)

\* ---------------------------------------------------------------- scenario generation
Quiet == sp.sub = <<"none">>
GenPrint == (Mode = "spill" /\ Len(hist) = MaxSteps) =>
               PrintT(<<"SCN", ToJson([steps |-> hist, limit2 |-> sp.limit2])>>)
\* everything the next-state relation depends on: hist only through its length and the rejected calls logged
StateView == <<sp, rds, chunkIn, Len(hist), {hist[i] : i \in {j \in 1..Len(hist) : hist[j][2] = -1}}>>
=============================================================================
