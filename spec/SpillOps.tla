------------------------------ MODULE SpillOps ------------------------------
(* Variable-free part of the Spill / Chunker specification (property C41).

   Transcribed from rust/lance-datafusion/src/spill.rs
     (create_replay_spill, SpillSender::{write, finish, send_error},
      SpillReceiver::read -> SpillReader::{wait_for_more_data, get_reader, read},
      WriteStatus / DataLocation published through a tokio watch channel)
   and rust/lance-datafusion/src/chunker.rs
     (BatchReaderChunker behind chunk_stream / chunk_concat_stream,
      StrictBatchSizeStream).

   Batches are identified by their index 0,1,2,.. in write order (the driver
   gives batch i the rows 3i, 3i+1, 3i+2 of a counter column).               *)
EXTENDS Naturals, Integers, Sequences, FiniteSets

Huge == 1000000      \* "no memory limit"

(***************************************************************************)
(* Sender.  sp = [sst, bufs, file, eos, exists, status, nw, limit2, sub]   *)
(*   sst     "Buffering" | "Spilling" | "Finished" | "Errored"             *)
(*   bufs    batches held in memory (SpillState::Buffering.batches)        *)
(*   file    batches in the IPC stream file, eos: end-of-stream written    *)
(*   exists  the spill file has been created                               *)
(*   status  the published WriteStatus [err, fin, loc, bufs, n]:           *)
(*           loc "buf" with the snapshot `bufs`, or "file" with n batches  *)
(*   nw      number of write() calls that returned Ok                      *)
(*   limit2  twice the memory limit, in units of one batch                 *)
(*   sub     sub-step of a write in progress (fine-grained model only):    *)
(*           <<"none">> | <<"append", id>> | <<"publish">>                 *)
(***************************************************************************)
Status0 == [err |-> FALSE, fin |-> FALSE, loc |-> "buf", bufs |-> <<>>, n |-> 0]
InitS(limit2) == [sst |-> "Buffering", bufs |-> <<>>, file |-> <<>>, eos |-> FALSE, exists |-> FALSE,
                  status |-> Status0, nw |-> 0, limit2 |-> limit2, sub |-> <<"none">>]

Published(st) == IF st.loc = "buf" THEN Len(st.bufs) ELSE st.n

(* write(), first part: up to the point where the new batch is handed to the file writer *)
WBegin(sp, id) ==
  IF sp.sst = "Buffering"
  THEN IF 2 * (Len(sp.bufs) + 1) > sp.limit2      \* memory_accumulator.total() > memory_limit
       THEN \* AsyncStreamWriter::open + drain of the buffered batches; the status is NOT republished yet
            [sp EXCEPT !.sst = "Spilling", !.file = sp.bufs, !.bufs = <<>>, !.exists = TRUE,
                       !.sub = <<"append", id>>]
       ELSE LET b == Append(sp.bufs, id) IN
            [sp EXCEPT !.bufs = b, !.nw = @ + 1,
                       !.status = [err |-> FALSE, fin |-> FALSE, loc |-> "buf", bufs |-> b, n |-> 0]]
  ELSE [sp EXCEPT !.sub = <<"append", id>>]        \* Spilling
(* writer.write(batch) (written and flushed) *)
WAppend(sp) == [sp EXCEPT !.file = Append(@, sp.sub[2]), !.sub = <<"publish">>]
(* batches_written += 1; status_sender.send_replace *)
WPublish(sp) == [sp EXCEPT !.nw = @ + 1, !.sub = <<"none">>,
                           !.status = [err |-> FALSE, fin |-> FALSE, loc |-> "file", bufs |-> <<>>, n |-> Len(sp.file)]]
WriteAllSteps(sp, id) ==
  LET a == WBegin(sp, id) IN IF a.sub = <<"none">> THEN a ELSE WPublish(WAppend(a))

FinishS(sp) ==
  IF sp.sst = "Buffering"
  THEN [sp EXCEPT !.sst = "Finished",
                  !.status = [err |-> FALSE, fin |-> TRUE, loc |-> "buf", bufs |-> sp.bufs, n |-> 0]]
  ELSE [sp EXCEPT !.sst = "Finished", !.eos = TRUE,
                  !.status = [err |-> FALSE, fin |-> TRUE, loc |-> "file", bufs |-> <<>>, n |-> Len(sp.file)]]
ErrorS(sp) ==
  [sp EXCEPT !.sst = "Errored", !.sub = <<"none">>,
             !.status = [err |-> TRUE, fin |-> TRUE, loc |-> "buf", bufs |-> <<>>, n |-> 0]]

(***************************************************************************)
(* Reader.  rd = [state, read, mode, fpos, seen]                           *)
(*   state "open" | "waiting" (a poll returned Pending) | "ended" | "errored" *)
(*   read   batches_read;  mode "buf" | "file";  fpos position in the file *)
(*   seen   ghost: the batches this reader has yielded                     *)
(***************************************************************************)
InitR == [state |-> "open", read |-> 0, mode |-> "buf", fpos |-> 0, seen |-> <<>>]

(* SpillReader::read.  Result <<rd', res>>, res = <<"pending">> | <<"batch", id>> | <<"end">> |
   <<"error">> | <<"eof">> (the file reader hit the end of the file without an end-of-stream
   marker: arrow's StreamReader then reports the end of the stream -- a premature end) *)
ReadNext(sp, rd) ==
  LET st == sp.status IN
  IF ~(st.err \/ st.fin \/ Published(st) > rd.read)
  THEN <<[rd EXCEPT !.state = "waiting"], <<"pending">>>>
  ELSE IF st.err THEN <<[rd EXCEPT !.state = "errored"], <<"error">>>>
  ELSE IF st.loc = "buf"
  THEN IF rd.read < Len(st.bufs)
       THEN <<[rd EXCEPT !.state = "open", !.read = @ + 1, !.seen = Append(@, st.bufs[rd.read + 1])],
              <<"batch", st.bufs[rd.read + 1]>>>>
       ELSE <<[rd EXCEPT !.state = "ended"], <<"end">>>>
  ELSE \* get_reader: open the file and skip the batches already delivered from memory
       LET pos == IF rd.mode = "buf" THEN rd.read ELSE rd.fpos IN
       IF pos > Len(sp.file)     \* skipping ran off the end of the file
       THEN <<[rd EXCEPT !.state = "ended", !.mode = "file"], <<"eof">>>>
       ELSE IF pos < Len(sp.file)
       THEN <<[rd EXCEPT !.state = "open", !.mode = "file", !.fpos = pos + 1, !.read = @ + 1,
                         !.seen = Append(@, sp.file[pos + 1])], <<"batch", sp.file[pos + 1]>>>>
       ELSE IF sp.eos THEN <<[rd EXCEPT !.state = "ended", !.mode = "file", !.fpos = pos], <<"end">>>>
       ELSE <<[rd EXCEPT !.state = "ended", !.mode = "file", !.fpos = pos], <<"eof">>>>

(***************************************************************************)
(* Property C41, spill half.                                               *)
(***************************************************************************)
Iota(n) == [i \in 1..n |-> i - 1]
\* what a reader has seen is a prefix of what was written, in order, no gaps, no repeats
SeenIsPrefix(sp, rd) == rd.seen = Iota(Len(rd.seen)) /\ Len(rd.seen) <= sp.nw
\* a reader that reached the end has seen everything, and only after finish()
EndMeansAll(sp, rd) == rd.state = "ended" => (sp.sst = "Finished" /\ Len(rd.seen) = sp.nw)
\* what is published is on disk
PublishedOnDisk(sp) == sp.status.loc = "file" => sp.status.n <= Len(sp.file)

(***************************************************************************)
(* Chunker.  Inputs are sequences of batches, a batch is a sequence of     *)
(* rows (natural numbers).                                                 *)
(***************************************************************************)
RECURSIVE Flat(_)
Flat(xs) == IF xs = <<>> THEN <<>> ELSE Head(xs) \o Flat(Tail(xs))

\* the meaning: pieces of exactly n rows, except the last
RECURSIVE Split(_, _)
Split(rows, n) == IF rows = <<>> THEN <<>>
                  ELSE IF Len(rows) <= n THEN <<rows>>
                  ELSE <<SubSeq(rows, 1, n)>> \o Split(SubSeq(rows, n + 1, Len(rows)), n)

\* the law of property C41 for an output `out` (a sequence of row sequences)
ChunkLaw(xs, n, out) ==
  /\ Flat(out) = Flat(xs)
  /\ \A i \in 1..Len(out) : IF i < Len(out) THEN Len(out[i]) = n ELSE Len(out[i]) \in 1..n

BufLen(buf) == Len(Flat(buf))

(* BatchReaderChunker::next: st = [inp, buf, i];  result [st, chunk] with chunk = sequence of slices,
   <<>> when the stream is finished *)
RECURSIVE Fill(_, _)
Fill(st, n) == IF BufLen(st.buf) - st.i < n /\ st.inp # <<>>
               THEN Fill([st EXCEPT !.buf = Append(@, Head(st.inp)), !.inp = Tail(@)], n)
               ELSE st
RECURSIVE Collect(_, _, _, _)
Collect(st, n, got, acc) ==
  IF got >= n \/ st.buf = <<>> THEN [st |-> st, chunk |-> acc]
  ELSE LET b == Head(st.buf) IN
       IF Len(b) = 0 THEN Collect([st EXCEPT !.buf = Tail(@)], n, got, acc)
       ELSE LET remaining == Len(b) - st.i
                take == IF remaining < n - got THEN remaining ELSE n - got
            IN IF take = remaining
               THEN Collect([st EXCEPT !.buf = Tail(@), !.i = 0], n, got + take,
                            Append(acc, SubSeq(b, st.i + 1, st.i + take)))
               ELSE Collect([st EXCEPT !.i = @ + take], n, got + take,
                            Append(acc, SubSeq(b, st.i + 1, st.i + take)))
RECURSIVE ChunkerRun(_, _)
ChunkerRun(st, n) == LET r == Collect(Fill(st, n), n, 0, <<>>) IN
                     IF r.chunk = <<>> THEN <<>> ELSE <<r.chunk>> \o ChunkerRun(r.st, n)
\* chunk_stream: a sequence of chunks, each a sequence of slices
ChunkStream(xs, n) == ChunkerRun([inp |-> xs, buf |-> <<>>, i |-> 0], n)
\* chunk_concat_stream
ChunkConcat(xs, n) == LET c == ChunkStream(xs, n) IN [k \in 1..Len(c) |-> Flat(c[k])]

(* StrictBatchSizeStream::poll_next: res = residual (<<"none">> or <<"some", rows>>) *)
RECURSIVE StrictRun(_, _, _)
StrictRun(inp, res, n) ==
  IF res[1] = "some" /\ Len(res[2]) >= n
  THEN <<SubSeq(res[2], 1, n)>> \o StrictRun(inp, <<"some", SubSeq(res[2], n + 1, Len(res[2]))>>, n)
  ELSE IF inp = <<>>
  THEN IF res[1] = "some" /\ Len(res[2]) > 0 THEN <<res[2]>> ELSE <<>>
  ELSE LET cur == IF res[1] = "some" THEN res[2] \o Head(inp) ELSE Head(inp) IN
       IF Len(cur) >= n
       THEN <<SubSeq(cur, 1, n)>> \o
            StrictRun(Tail(inp), IF Len(cur) > n THEN <<"some", SubSeq(cur, n + 1, Len(cur))>> ELSE <<"none">>, n)
       ELSE StrictRun(Tail(inp), <<"some", cur>>, n)
StrictStream(xs, n) == StrictRun(xs, <<"none">>, n)

\* batches of the given sizes holding the rows 0,1,2,...
RECURSIVE Rows(_, _)
Rows(sizes, from) == IF sizes = <<>> THEN <<>>
                     ELSE <<[i \in 1..Head(sizes) |-> from + i - 1]>> \o Rows(Tail(sizes), from + Head(sizes))
=============================================================================
