------------------------------- MODULE Sql3VL -------------------------------
(* Three-valued SQL predicate semantics over rows of nullable integer cells
   (the reference query semantics used by C12, C16, C19, C20, C29).

   A row is a record col -> value, NULL == -1 (values are naturals).
   A predicate is a tuple, as it travels in scenarios and traces:
     <<"true">> <<"false">>
     <<"cmp", col, op, lit>>      op \in {"=", "<>", "<", "<=", ">", ">="}, lit may be NULL
     <<"in", col, <<lit...>>>>    (NULL inside the list is a NULL literal)
     <<"between", col, lo, hi>>
     <<"isnull", col>> <<"notnull", col>>
     <<"and", p, q>> <<"or", p, q>> <<"not", p>>
   Eval returns "T", "F" or "N" (unknown).  A filter keeps exactly the rows for
   which Eval is "T"; DELETE removes exactly those rows.                      *)
EXTENDS Naturals, Integers, Sequences, FiniteSets

NULL == -1

Not3(a) == IF a = "T" THEN "F" ELSE IF a = "F" THEN "T" ELSE "N"
And3(a, b) == IF a = "F" \/ b = "F" THEN "F" ELSE IF a = "T" /\ b = "T" THEN "T" ELSE "N"
Or3(a, b)  == IF a = "T" \/ b = "T" THEN "T" ELSE IF a = "F" /\ b = "F" THEN "F" ELSE "N"
B3(b) == IF b THEN "T" ELSE "F"

Cmp(x, op, y) ==
  IF x = NULL \/ y = NULL THEN "N"
  ELSE CASE op = "="  -> B3(x = y)
         [] op = "<>" -> B3(x # y)
         [] op = "<"  -> B3(x < y)
         [] op = "<=" -> B3(x <= y)
         [] op = ">"  -> B3(x > y)
         [] op = ">=" -> B3(x >= y)

\* x IN (l1, ..., ln)  ==  x = l1 OR ... OR x = ln
RECURSIVE InList(_, _, _)
InList(x, lits, i) == IF i > Len(lits) THEN "F" ELSE Or3(Cmp(x, "=", lits[i]), InList(x, lits, i + 1))

RECURSIVE Eval(_, _)
Eval(p, row) ==
  CASE p[1] = "true"    -> "T"
    [] p[1] = "false"   -> "F"
    [] p[1] = "cmp"     -> Cmp(row[p[2]], p[3], p[4])
    [] p[1] = "in"      -> InList(row[p[2]], p[3], 1)
    [] p[1] = "between" -> And3(Cmp(row[p[2]], ">=", p[3]), Cmp(row[p[2]], "<=", p[4]))
    [] p[1] = "isnull"  -> B3(row[p[2]] = NULL)
    [] p[1] = "notnull" -> B3(row[p[2]] # NULL)
    [] p[1] = "and"     -> And3(Eval(p[2], row), Eval(p[3], row))
    [] p[1] = "or"      -> Or3(Eval(p[2], row), Eval(p[3], row))
    [] p[1] = "not"     -> Not3(Eval(p[2], row))

Holds(p, row) == Eval(p, row) = "T"

\* scalar update expressions: <<"lit", v>> | <<"plus", col, k>> | <<"col", c>>
EvalExpr(e, row) ==
  CASE e[1] = "lit"  -> e[2]
    [] e[1] = "plus" -> IF row[e[2]] = NULL THEN NULL ELSE row[e[2]] + e[3]
    [] e[1] = "col"  -> row[e[2]]

(* The grammar the generators enumerate: atoms over the given columns and
   literal set, closed once under NOT / AND / OR.                             *)
Atoms(cols, lits) ==
  {<<"true">>, <<"false">>}
  \cup {<<"cmp", c, op, l>> : c \in cols, op \in {"=", "<>", "<", "<=", ">", ">="}, l \in lits \cup {NULL}}
  \cup {<<"isnull", c>> : c \in cols} \cup {<<"notnull", c>> : c \in cols}
  \cup {<<"in", c, <<l1, l2>>>> : c \in cols, l1 \in lits, l2 \in lits \cup {NULL}}
  \cup {<<"between", c, l1, l2>> : c \in cols, l1 \in lits, l2 \in lits}
Depth1(cols, lits) ==
  LET A == Atoms(cols, lits) IN
  A \cup {<<"not", a>> : a \in A}
Depth2(cols, lits, small) ==   \* small: a subset of atoms used as operands to keep the product finite
  Depth1(cols, lits)
  \cup {<<"and", a, b>> : a \in small, b \in small} \cup {<<"or", a, b>> : a \in small, b \in small}
  \cup {<<"not", <<"and", a, b>>>> : a \in small, b \in small} \cup {<<"not", <<"or", a, b>>>> : a \in small, b \in small}
=============================================================================
