----------------------------- MODULE TableQuery -----------------------------
(* Reference semantics of filters, DML statements and merge_insert on a small
   table with a nullable column (C12, C16, C19), and the source of the
   scenarios replayed on the implementation.

   The state is a logical table (key -> value, NULL = -1) with an optional
   scalar index flag; statements are drawn from the Sql3VL grammar.  TLC
   checks the laws the reference semantics must obey (they are what makes it
   the *SQL* model and not just some evaluator):
     Partition      for every predicate the rows split into TRUE / FALSE / UNKNOWN
     NotSwaps       NOT p is TRUE exactly where p is FALSE; UNKNOWN stays UNKNOWN
     DeleteKeepsUnknown  DELETE WHERE p removes exactly the TRUE rows
     UpdateKeepsCount    UPDATE never changes the number of rows
     MergeIsFunctional   merge_insert leaves keys unique
   and prints every statement as a scenario step.                            *)
EXTENDS Sql3VL, TLC, Json, SequencesExt

CONSTANTS Keys,      \* keys that may occur
          Lits,      \* literals used in predicates
          Small,     \* atoms used as operands of AND / OR
          MaxSteps

SmallDefault == {<<"cmp", "val", "=", 1>>, <<"cmp", "val", "<", 2>>, <<"isnull", "val">>,
                 <<"cmp", "val", ">=", 2>>, <<"cmp", "val", "<>", 0>>,
                 \* lower / upper bounds that combine into non-empty ranges in every operator pairing and order
                 \* (x < a AND x >= b, x <= a AND x > b, ...): the planner turns such pairs into one range search
                 <<"cmp", "val", ">=", 1>>, <<"cmp", "val", "<=", 1>>, <<"cmp", "val", ">", 0>>}
Preds == Depth2({"val"}, Lits, Small)
Exprs == {<<"lit", 7>>, <<"lit", NULL>>, <<"plus", "val", 1>>}

VARIABLES tbl,    \* function key -> val for live keys
          steps,  \* number of statements so far
          last,   \* the last statement, as a record (exported)
          hist
vars == <<tbl, steps, last, hist>>
view == <<tbl, steps, last>>

Cells(t) == {[id |-> k, val |-> t[k]] : k \in DOMAIN t}
TrueKeys(t, p) == {k \in DOMAIN t : Holds(p, [id |-> k, val |-> t[k]])}
UnkKeys(t, p)  == {k \in DOMAIN t : Eval(p, [id |-> k, val |-> t[k]]) = "N"}
FalseKeys(t, p) == {k \in DOMAIN t : Eval(p, [id |-> k, val |-> t[k]]) = "F"}

T0 == (1 :> 1) @@ (2 :> NULL) @@ (3 :> 2) @@ (4 :> 0) @@ (5 :> NULL) @@ (6 :> 2)

Init == tbl = T0 /\ steps = 0 /\ last = [op |-> "init"] /\ hist = <<>>

Delete(p) ==
  /\ tbl' = [k \in (DOMAIN tbl) \ TrueKeys(tbl, p) |-> tbl[k]]
  /\ last' = [op |-> "delete", pred |-> p]
Update(p, e) ==
  /\ tbl' = [k \in DOMAIN tbl |-> IF k \in TrueKeys(tbl, p) THEN EvalExpr(e, [id |-> k, val |-> tbl[k]]) ELSE tbl[k]]
  /\ last' = [op |-> "update", pred |-> p, setexpr |-> e]
\* merge_insert keyed on id.  The source is a sequence of <<key, val>> rows and may repeat a key.
\* SQL MERGE: a statement in which more than one source row would update the same target row fails
\* without effect; so does WHEN MATCHED FAIL with a match.  (A repeated key that matches nothing
\* would insert two rows with one key; the table is a function here, such sources are not drawn.)
SrcKeys(src) == {src[i][1] : i \in 1..Len(src)}
SrcValOf(src, k) == src[CHOOSE i \in 1..Len(src) : src[i][1] = k][2]
Repeated(src) == {k \in SrcKeys(src) : \E a, b \in 1..Len(src) : a # b /\ src[a][1] = k /\ src[b][1] = k}
MergeFails(t, src, matched) ==
  \/ matched = "fail" /\ SrcKeys(src) \cap DOMAIN t # {}
  \/ matched = "update_all" /\ Repeated(src) \cap DOMAIN t # {}
Merge(src, matched, notMatched, nmbs) ==
  LET sk == SrcKeys(src)
      m == sk \cap DOMAIN tbl
      upd == IF matched = "update_all" THEN m ELSE {}
      ins == IF notMatched = "insert_all" THEN sk \ DOMAIN tbl ELSE {}
      gone == IF nmbs = "delete" THEN (DOMAIN tbl) \ sk ELSE {}
  IN /\ Repeated(src) \subseteq DOMAIN tbl
     /\ tbl' = IF MergeFails(tbl, src, matched) THEN tbl
               ELSE [k \in ((DOMAIN tbl) \ gone) \cup ins |-> IF k \in upd \cup ins THEN SrcValOf(src, k) ELSE tbl[k]]
     /\ last' = [op |-> "merge_insert", src |-> src, matched |-> matched, not_matched |-> notMatched, nmbs |-> nmbs,
                 fails |-> MergeFails(tbl, src, matched)]

Sources == {<<<<1, 8>>>>, <<<<9, 8>>>>, <<<<1, 8>>, <<9, NULL>>>>, <<<<2, 0>>, <<3, 3>>, <<9, 1>>>>,
            \* repeated keys: different values, identical rows, among other rows
            <<<<1, 8>>, <<1, 9>>>>, <<<<4, 5>>, <<4, 5>>>>, <<<<2, 0>>, <<3, 3>>, <<9, 1>>, <<3, 4>>>>}

Next == /\ steps < MaxSteps
        /\ steps' = steps + 1
        /\ \/ \E p \in Preds : Delete(p)
           \/ \E p \in Preds, e \in Exprs : Update(p, e)
           \/ \E s \in Sources, m \in {"update_all", "do_nothing", "fail"}, n \in {"insert_all", "do_nothing"},
                 b \in {"keep", "delete"} : Merge(s, m, n, b)
        /\ hist' = Append(hist, last')
Spec == Init /\ [][Next]_vars

\* laws of the reference semantics ---------------------------------------
Partition == \A p \in Preds :
   /\ TrueKeys(tbl, p) \cup FalseKeys(tbl, p) \cup UnkKeys(tbl, p) = DOMAIN tbl
   /\ TrueKeys(tbl, p) \cap UnkKeys(tbl, p) = {} /\ TrueKeys(tbl, p) \cap FalseKeys(tbl, p) = {}
NotSwaps == \A p \in Preds :
   /\ TrueKeys(tbl, <<"not", p>>) = FalseKeys(tbl, p)
   /\ UnkKeys(tbl, <<"not", p>>) = UnkKeys(tbl, p)
DeleteKeepsUnknown ==
   [][\A p \in Preds : (last'.op = "delete" /\ last'.pred = p) =>
         DOMAIN tbl' = (DOMAIN tbl) \ TrueKeys(tbl, p)]_vars
UpdateKeepsCount == [][last'.op = "update" => DOMAIN tbl' = DOMAIN tbl]_vars
\* a failing merge has no effect; a succeeding one never updates a row from two source rows
MergeFailsWithoutEffect == [][(last'.op = "merge_insert" /\ last'.fails) => tbl' = tbl]_vars
MergeIsFunctional == [][(last'.op = "merge_insert" /\ ~last'.fails /\ last'.matched = "update_all")
                          => Repeated(last'.src) \cap DOMAIN tbl = {}]_vars
TypeOK == \A k \in DOMAIN tbl : tbl[k] \in Nat \cup {NULL}

\* scenario export --------------------------------------------------------
PredList == PrintT(<<"PREDS", ToJson(Preds)>>)
GenPrint == (steps = MaxSteps) => PrintT(<<"SCN", ToJson(hist)>>)
=============================================================================
