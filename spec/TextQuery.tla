------------------------------ MODULE TextQuery ------------------------------
(* Full-text search over a table with deletions, rows appended after indexing,
   index optimisation (merge) and compaction (C23).

   State: the live rows (key, document = token sequence, covered-by-index flag),
   the keys that ever existed, whether an inverted index exists.  Keys
   1..MaxKeys carry the documents of a fixed pool (constant PoolId): <= 4 tokens
   over words 1..3 plus the non-ASCII word 4, the empty string and NULL.

   Actions: Append, Delete, BuildIndex, Optimize, Compact, Query.  The answer of
   a query is specified by the relation TextQueryOps!Judge.  TLC checks laws of
   the matching semantics on every reachable table and every query of the
   universe, and generates the scenarios the driver replays on lance.           *)
EXTENDS TextQueryOps, Json, SequencesExt

CONSTANTS MaxKeys, MaxSteps, PoolId, WithQueries

VARIABLES tbl, ever, hasIndex, nextKey, steps, last, hist
vars == <<tbl, ever, hasIndex, nextKey, steps, last, hist>>
view == <<tbl, ever, hasIndex, nextKey, steps, last>>

Words == 1..4
PoolDocOf(p) ==
  CASE p = 1 -> << <<1, 2>>, <<2, 1>>, <<1, 1, 2>>, <<>>, NullDoc, <<3, 4, 1, 2>>, <<2>>, <<1, 3, 2>> >>
    [] p = 2 -> << <<4>>, <<1, 2, 3>>, <<3, 2, 1>>, NullDoc, <<2, 2, 2, 1>>, <<>>, <<1, 4, 2>>, <<2, 3>> >>
    [] p = 3 -> << <<1>>, <<1, 2, 1, 2>>, <<2, 1, 2>>, <<3>>, <<>>, <<1, 2>>, NullDoc, <<4, 4>> >>
PoolDoc == PoolDocOf(PoolId)
Row(k, ix) == [key |-> k, doc |-> PoolDoc[k], indexed |-> ix]
ASSUME MaxKeys <= 8

TermSeqs(n) == UNION {[1..m -> Words] : m \in 1..n}
Leaf(t) == <<"match", <<t>>, "or">>
Leaves == {Leaf(t) : t \in Words} \cup {<<"phrase", <<1, 2>>>>, <<"match", <<1, 2>>, "and">>}
LeafSeqs(n) == UNION {[1..m -> Leaves] : m \in 0..n}
BoolQueries ==
  {<<"bool", m, s, x>> : m \in LeafSeqs(2), s \in LeafSeqs(2), x \in LeafSeqs(1)}
AllQueries ==
  {<<"match", ts, op>> : ts \in TermSeqs(3), op \in {"and", "or"}}
  \cup {<<"phrase", ts>> : ts \in TermSeqs(3)}
  \cup {q \in BoolQueries : Len(q[2]) + Len(q[3]) + Len(q[4]) <= 3 /\ Len(q[2]) + Len(q[3]) >= 1}
\* the universe used for the laws
QueriesMC ==
  {<<"match", ts, op>> : ts \in TermSeqs(2), op \in {"and", "or"}}
  \cup {<<"phrase", ts>> : ts \in TermSeqs(2) \cup {<<1, 2, 1>>, <<2, 2, 2>>, <<3, 4, 1>>}}
  \cup {q \in BoolQueries : Len(q[2]) + Len(q[3]) + Len(q[4]) <= 2 /\ Len(q[2]) + Len(q[3]) >= 1}

\* a constructive answer: the matching rows, by ascending (tie = 1) or descending key, with made-up scores
Canon(T, q, tie) ==
  LET M == MatchSet(T, q)
      n == Cardinality(M)
      rank(k) == Cardinality({j \in M : tie * j < tie * k}) + 1
  IN [i \in 1..n |-> <<CHOOSE k \in M : rank(k) = i, n + 1 - i>>]

Init ==
  /\ \E n \in {3, 4, 5} :
       /\ tbl = {Row(k, FALSE) : k \in 1..n} /\ ever = 1..n /\ nextKey = n + 1
       /\ hist = <<[op |-> "create", keys |-> [i \in 1..n |-> i]]>>
  /\ hasIndex = FALSE /\ steps = 0 /\ last = [op |-> "create"]

AppendRows(n) ==
  /\ nextKey + n - 1 <= MaxKeys
  /\ tbl' = tbl \cup {Row(k, FALSE) : k \in nextKey..(nextKey + n - 1)}
  /\ ever' = ever \cup nextKey..(nextKey + n - 1)
  /\ nextKey' = nextKey + n
  /\ last' = [op |-> "append", keys |-> [i \in 1..n |-> nextKey + i - 1]]
  /\ UNCHANGED hasIndex
DeleteRows(K) ==
  /\ K # {} /\ K \subseteq Keys(tbl) /\ Cardinality(K) <= 2
  /\ tbl' = {r \in tbl : r.key \notin K}
  /\ last' = [op |-> "delete", keys |-> SetToSeq(K)]
  /\ UNCHANGED <<ever, hasIndex, nextKey>>
BuildIndex ==
  /\ tbl # {}
  /\ tbl' = {[r EXCEPT !.indexed = TRUE] : r \in tbl}
  /\ hasIndex' = TRUE
  /\ last' = [op |-> "index"]
  /\ UNCHANGED <<ever, nextKey>>
Optimize ==
  /\ hasIndex
  /\ tbl' = {[r EXCEPT !.indexed = TRUE] : r \in tbl}
  /\ last' = [op |-> "optimize"]
  /\ UNCHANGED <<ever, hasIndex, nextKey>>
Compact ==
  /\ last' = [op |-> "compact"]
  /\ UNCHANGED <<tbl, ever, hasIndex, nextKey>>
Query(q) ==
  /\ WithQueries /\ last.op # "query" /\ hasIndex
  /\ last' = [op |-> "query", query |-> q, answer |-> Canon(tbl, q, 1)]
  /\ UNCHANGED <<tbl, ever, hasIndex, nextKey>>

\* a table action is one step of the history
Pre == steps < MaxSteps /\ last.op # "query"
Post == steps' = steps + 1 /\ hist' = Append(hist, last')
N_Append == Pre /\ (\E n \in 1..2 : AppendRows(n)) /\ Post
N_Delete == Pre /\ (\E K \in SUBSET Keys(tbl) : DeleteRows(K)) /\ Post
N_Index == Pre /\ (BuildIndex) /\ Post
N_Optimize == Pre /\ Optimize /\ Post
N_Compact == Pre /\ Compact /\ Post
N_Query == (\E q \in QueriesMC : Query(q)) /\ UNCHANGED <<steps, hist>>
Next == N_Append \/ N_Delete \/ N_Index \/ N_Optimize \/ N_Compact \/ N_Query
Spec == Init /\ [][Next]_vars

TypeOK ==
  /\ \A r \in tbl : r.key \in ever /\ (r.indexed => hasIndex)
  /\ Cardinality(Keys(tbl)) = Cardinality(tbl)
  /\ nextKey <= MaxKeys + 1

(* ---- laws, evaluated on every generated query ---- *)
IsQ == last.op = "query"
Q0 == last.query
A0 == last.answer
M0 == MatchSet(tbl, Q0)
Satisfiable ==
  IsQ => Judge(tbl, ever, Q0, 0, A0) = {} /\ Judge(tbl, ever, Q0, 0, Canon(tbl, Q0, -1)) = {}
\* deleted rows, NULL and empty documents never match; which rows the index covers is irrelevant
VisibleOnly ==
  IsQ => /\ M0 \subseteq Keys(tbl)
         /\ \A r \in tbl : (IsNull(r.doc) \/ r.doc = <<>>) => r.key \notin M0
         /\ M0 = MatchSet({[r EXCEPT !.indexed = TRUE] : r \in tbl}, Q0)
\* phrase => all terms => any term; one term: all three coincide
Hierarchy ==
  (IsQ /\ Q0[1] \in {"match", "phrase"}) =>
     LET ts == Q0[2]
         P == MatchSet(tbl, <<"phrase", ts>>)
         A == MatchSet(tbl, <<"match", ts, "and">>)
         O == MatchSet(tbl, <<"match", ts, "or">>)
     IN P \subseteq A /\ A \subseteq O /\ (Len(ts) = 1 => (P = A /\ A = O))
\* boolean queries over single-term leaves are the AND / OR of their terms, minus the must_not terms
IsTermLeaf(c) == c[1] = "match" /\ Len(c[2]) = 1
BoolLaw ==
  (IsQ /\ Q0[1] = "bool" /\ \A c \in SeqSet(Q0[2]) \cup SeqSet(Q0[3]) \cup SeqSet(Q0[4]) : IsTermLeaf(c)) =>
     LET terms(cs) == [i \in 1..Len(cs) |-> cs[i][2][1]]
         pos == IF Len(Q0[2]) >= 1 THEN MatchSet(tbl, <<"match", terms(Q0[2]), "and">>)
                ELSE MatchSet(tbl, <<"match", terms(Q0[3]), "or">>)
         neg == IF Len(Q0[4]) >= 1 THEN MatchSet(tbl, <<"match", terms(Q0[4]), "or">>) ELSE {}
     IN M0 = pos \ neg
\* the relation discriminates
Discriminates ==
  IsQ =>
    /\ (Len(A0) >= 1) => \E j \in Judge(tbl, ever, Q0, 0, SubSeq(A0, 2, Len(A0))) : j[1] = "MatchSetExact"
    /\ \A d \in ever \ Keys(tbl) : <<"MatchSetExact", <<"deleted-row-returned", "">>>> \in Judge(tbl, ever, Q0, 0, <<<<d, 99>>>> \o A0)
    /\ \A k \in Keys(tbl) \ M0 : \E j \in Judge(tbl, ever, Q0, 0, <<<<k, 99>>>> \o A0) : j[1] = "MatchSetExact"
    /\ (Len(A0) >= 2) => \E j \in Judge(tbl, ever, Q0, 0, [i \in 1..Len(A0) |-> A0[Len(A0) + 1 - i]]) : j[1] = "ScoreOrdered"
    /\ (Len(A0) >= 2) => /\ Judge(tbl, ever, Q0, 1, SubSeq(A0, 1, 1)) = {}
                         /\ \E j \in Judge(tbl, ever, Q0, 1, A0) : j[1] = "LimitCount"

(* ---- scenario generation ---- *)
GenPrint == (steps = MaxSteps) => PrintT(<<"SCN", ToJson(hist)>>)
QryPrint == (steps = 0 /\ Cardinality(tbl) = 3) => PrintT(<<"QRY", ToJson(SetToSeq(AllQueries))>>)
PoolPrint == (steps = 0 /\ Cardinality(tbl) = 3) => PrintT(<<"POOL", ToJson([p \in 1..3 |-> [k \in 1..8 |-> <<k, PoolDocOf(p)[k]>>]])>>)
=============================================================================
