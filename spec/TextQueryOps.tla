---------------------------- MODULE TextQueryOps ----------------------------
(* Meaning of a full-text query (C23), as variable-free operators.

   A document is the sequence of tokens the index's tokenizer produces for the
   stored text (here: whitespace splitting + lower-casing; tokens are numbered
   1..NWords).  The NULL document is <<0>>; the empty string (and a string of
   white space) is the empty sequence.  Neither contains any token.

   Queries, as they travel in scenarios and traces:
     <<"match", <<t1..tn>>, "or">>    documents containing any of the terms
     <<"match", <<t1..tn>>, "and">>   documents containing all of the terms
     <<"phrase", <<t1..tn>>>>         documents containing t1..tn as consecutive tokens
     <<"bool", must, should, must_not>>   sequences of sub-queries:
         must # <<>> : documents matching every must clause (should only affects the score)
         must = <<>> : documents matching at least one should clause
         minus documents matching any must_not clause

   The answer R of a query is a sequence of <<key, reported score>> in returned
   order.  It is specified as a relation:
     MatchSetExact    the set of returned keys = the live rows whose document matches
                      (rows of not-yet-indexed fragments included, deleted rows excluded)
     Distinct         no row twice
     ScoreOrdered     reported scores are non-increasing in returned order
   With a limit L (scanner.limit) the answer is L best-scored matching rows:
     LimitSubset / LimitCount   R's keys are matching rows, |R| = min(L, matching)
   Score VALUES are not specified here (BM25 is real arithmetic).

   Classes of matching-set errors (second component of a judgement).  The first
   four describe what lance does today (deviations from the intended meaning
   above, found by this check; see Judge):
     and-ignored-absent-term / indexed       AndDropsAbsentTerm: an AND match drops the terms that
     must-not-and-ignored-absent-term        do not occur in an index partition's vocabulary (recognised
                                             when the ignored terms occur in no live indexed row)
     and-matched-on-some-terms / unindexed   FlatAndIsOr: rows of not-yet-indexed fragments are
                                             matched with OR semantics whatever the operator
     phrase-missed / unindexed               PhraseSkipsUnindexed: phrase queries only consult the index
     must-not-phrase-missed / unindexed
     missed-beside-repeated-term / unindexed FlatDropsNonPositiveScores: rows of not-yet-indexed fragments
     must-not-missed-beside-repeated-term    count as matches only when their score is > 0, and the scorer
     missed-beside-empty-documents           used for them (a) counts a repeated token once per occurrence, so
                                             the idf can turn negative, (b) truncates the average document
                                             length to an integer, so with empty documents around it becomes
                                             0 and every score 0 (a must_not clause misses such rows too)
     extra-rows, missed-rows, phrase-matched-out-of-sequence, deleted-row-returned,
     unknown-row-returned                    anything else                          *)
EXTENDS Naturals, Integers, Sequences, FiniteSets, TLC

NullDoc == <<0>>
IsNull(d) == d = NullDoc
TokensOf(d) == IF IsNull(d) THEN {} ELSE {d[i] : i \in 1..Len(d)}
SeqSet(s) == {s[i] : i \in 1..Len(s)}

HasPhrase(d, ts) ==
  /\ ~IsNull(d) /\ Len(ts) >= 1
  /\ \E i \in 1..(Len(d) - Len(ts) + 1) : \A j \in 1..Len(ts) : d[i + j - 1] = ts[j]

RECURSIVE Matches(_, _)
Matches(q, d) ==
  CASE q[1] = "match" ->
         IF q[3] = "and" THEN Len(q[2]) >= 1 /\ SeqSet(q[2]) \subseteq TokensOf(d)
         ELSE SeqSet(q[2]) \cap TokensOf(d) # {}
    [] q[1] = "phrase" -> HasPhrase(d, q[2])
    [] q[1] = "bool" ->
         /\ IF Len(q[2]) >= 1 THEN \A i \in 1..Len(q[2]) : Matches(q[2][i], d)
            ELSE \E i \in 1..Len(q[3]) : Matches(q[3][i], d)
         /\ \A i \in 1..Len(q[4]) : ~Matches(q[4][i], d)

\* table: set of rows [key, doc, indexed]; only live rows are in it
Keys(T) == {r.key : r \in T}
MatchSet(T, q) == {r.key : r \in {x \in T : Matches(q, x.doc)}}
RKeys(R) == {R[i][1] : i \in 1..Len(R)}

Kind(q) == IF q[1] = "match" THEN (IF q[3] = "and" THEN "match-and" ELSE "match-or") ELSE q[1]
RECURSIVE HasKind(_, _)
HasKind(q, k) ==
  IF q[1] = "bool"
  THEN \E c \in SeqSet(q[2]) \cup SeqSet(q[3]) \cup SeqSet(q[4]) : HasKind(c, k)
  ELSE Kind(q) = k
\* terms mentioned anywhere in the query
RECURSIVE Terms(_)
Terms(q) == IF q[1] = "bool"
            THEN UNION {Terms(c) : c \in SeqSet(q[2]) \cup SeqSet(q[3]) \cup SeqSet(q[4])}
            ELSE SeqSet(q[2])

(* Judge an answer.  limit = 0 means no limit.  Returns a set of <<clause, <<class, where>>>>:
   class describes the shape of a matching-set error so that distinct defects get
   distinct, stable signatures.                                                 *)
Judge(T, ever, q, limit, R) ==
  LET M == MatchSet(T, q)
      ks == RKeys(R)
      n == Len(R)
      rowOf(k) == CHOOSE r \in T : r.key = k
      gone == (ks \ Keys(T)) \cap ever
      alien == (ks \ Keys(T)) \ ever
      \* matching-set errors are reported separately for rows the index covers and rows it does not
      count(d, t) == Cardinality({i \in 1..Len(d) : d[i] = t})
      repeats == \E r \in T : ~r.indexed /\ ~IsNull(r.doc) /\ (\E t \in Terms(q) : count(r.doc, t) >= 2)
      \* AND leaves of the query and the query terms that no live row covered by the index contains
      \* (such a term is certainly missing from the vocabulary of the index partitions)
      andLeaves == IF Kind(q) = "match-and" THEN {q}
                   ELSE IF q[1] = "bool" THEN {c \in SeqSet(q[2]) \cup SeqSet(q[3]) \cup SeqSet(q[4]) : Kind(c) = "match-and"}
                   ELSE {}
      absent == Terms(q) \ UNION {TokensOf(r.doc) : r \in {x \in T : x.indexed}}
      \* row k matches AND leaf c once the absent terms of c are ignored (and not otherwise)
      absentExplains(c, k) == /\ SeqSet(c[2]) \cap absent # {}
                              /\ (SeqSet(c[2]) \ absent) \subseteq TokensOf(rowOf(k).doc)
                              /\ SeqSet(c[2]) \ absent # {}
                              /\ ~(SeqSet(c[2]) \subseteq TokensOf(rowOf(k).doc))
      part(S, w) == {k \in S \cap Keys(T) : rowOf(k).indexed = (w = "indexed")}
      extraClass(S, w) ==
        IF q[1] = "bool" /\ w = "unindexed"
           /\ (\A k \in S : \E i \in 1..Len(q[4]) : HasKind(q[4][i], "phrase") /\ Matches(q[4][i], rowOf(k).doc))
             THEN <<"must-not-phrase-missed", w>>
        ELSE IF q[1] = "bool" /\ w = "unindexed" /\ repeats
                /\ (\A k \in S : \E i \in 1..Len(q[4]) : Matches(q[4][i], rowOf(k).doc))
             THEN <<"must-not-missed-beside-repeated-term", w>>
        ELSE IF w = "indexed" /\ (\A k \in S : \E c \in andLeaves : absentExplains(c, k))
             THEN <<"and-ignored-absent-term", w>>
        ELSE IF HasKind(q, "match-and") /\ (\A k \in S : TokensOf(rowOf(k).doc) \cap Terms(q) # {})
             THEN <<"and-matched-on-some-terms", w>>
        ELSE IF HasKind(q, "phrase") /\ (\A k \in S : TokensOf(rowOf(k).doc) \cap Terms(q) # {})
             THEN <<"phrase-matched-out-of-sequence", w>>
        ELSE <<"extra-rows", w>>
      \* an AND clause under must_not that would exclude the row if one of its terms were ignored
      andOvermatch(k) == q[1] = "bool" /\ \E i \in 1..Len(q[4]) :
                            /\ Kind(q[4][i]) = "match-and" /\ ~Matches(q[4][i], rowOf(k).doc)
                            /\ TokensOf(rowOf(k).doc) \cap SeqSet(q[4][i][2]) # {}
      missingClass(w) == IF w = "indexed" /\ q[1] = "bool"
                            /\ (\A k \in part(M \ ks, w) : \E c \in andLeaves \cap SeqSet(q[4]) : absentExplains(c, k))
                         THEN <<"must-not-and-ignored-absent-term", w>>
                         ELSE IF \A k \in part(M \ ks, w) : andOvermatch(k) THEN <<"must-not-and-matched-on-some-terms", w>>
                         ELSE IF HasKind(q, "phrase") THEN <<"phrase-missed", w>>
                         ELSE IF w = "unindexed" /\ repeats THEN <<"missed-beside-repeated-term", w>>
                         ELSE IF w = "unindexed" /\ (\E r \in T : TokensOf(r.doc) = {}) THEN <<"missed-beside-empty-documents", w>>
                         ELSE <<"missed-rows", w>>
      extras(clause) ==
        (IF gone = {} THEN {} ELSE {<<clause, <<"deleted-row-returned", "">>>>})
        \cup (IF alien = {} THEN {} ELSE {<<clause, <<"unknown-row-returned", "">>>>})
        \cup UNION {IF part(ks \ M, w) = {} THEN {} ELSE {<<clause, extraClass(part(ks \ M, w), w)>>} : w \in {"indexed", "unindexed"}}
  IN (IF Cardinality(ks) # n THEN {<<"Distinct", <<"duplicate-row", "">>>>} ELSE {})
     \cup (IF \A i \in 1..(n - 1) : R[i][2] >= R[i + 1][2] THEN {} ELSE {<<"ScoreOrdered", <<Kind(q), "">>>>})
     \cup (IF limit = 0
           THEN extras("MatchSetExact")
                \cup UNION {IF part(M \ ks, w) = {} THEN {} ELSE {<<"MatchSetExact", missingClass(w)>>} : w \in {"indexed", "unindexed"}}
           ELSE extras("LimitSubset")
                \cup (IF n = (IF limit <= Cardinality(M) THEN limit ELSE Cardinality(M)) THEN {}
                      ELSE {<<"LimitCount", <<Kind(q), "">>>>}))
=============================================================================
