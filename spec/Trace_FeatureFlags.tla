------------------------ MODULE Trace_FeatureFlags ------------------------
(* Validates what harness/src/bin/vh_flags.rs recorded on the real crates
   against FeatureFlagsOps (property C37).  One JSON array per line:

   pure    ["univ", NKnown, NUnknown, embeddings]
           ["can_read"|"can_write", emb, word, result]
           ["apply", emb, frags, enable, notxn, config, base, prejunk, res, rword, wword]
           ["parse", idx, string, variant|"invalid", to_numbers]
           ["variant", v, display, parse(display), resolve, to_numbers, from_numbers, dsf string, dsf parsed, unstable]
           ["from_numbers", major, minor, variant|"invalid", to_numbers]
   hist    ["reset", scn, stable, ver, name, res, facts]      create with storage version `name`
           ["step", scn, i, op, res, facts, text]             facts = projection of the resulting manifest
   gate    ["gate_univ", readops, writeops, embeddings]
           ["gate", op, handle, ur, uw, emb, phase, res, before, after, hv, text]
           a future writer committed version P on top of the table with the unknown reader bits `ur`
           / writer bits `uw` (numbers 0..3 over the two abstract unknown bits); `op` was then attempted
           through a handle opened after ("fresh") or before ("stale") that commit; before/after/hv =
           latest version before / after the attempt and the handle's version, relative to P.

   Stateless events are judged one by one; history steps are judged against the table model
   (Effect) and the invariants FlagsReflectContents / FilesCarryTableVersion on the recorded facts.
   Failures are collected in `bad` as <<position, kind, class, detail>>.                          *)
EXTENDS FeatureFlagsOps, Json, IOUtils, SequencesExt

Rec == ndJsonDeserialize(IOEnv.TRACE)
N   == Len(Rec)

VARIABLES l, bad, cnt, T, alive
tvars == <<l, bad, cnt, T, alive>>

Kinds == {"univ", "can_read", "can_write", "apply", "parse", "variant", "from_numbers", "infer", "reset", "step",
          "gate_univ", "gate"}
Counters == Kinds \cup {"apply_err", "step_skipped", "gate_unknown", "gate_control", "step_del", "step_base",
                        "step_config", "step_stable", "step_switch"}

Bool01(b) == IF b THEN 1 ELSE 0

\* ---- facts of a recorded manifest ------------------------------------------------------------
FHasDel(f)  == \E i \in 1 .. Len(f.frags) : f.frags[i][3] = 1
FAnyRid(f)  == \E i \in 1 .. Len(f.frags) : f.frags[i][4] = 1
FAllRid(f)  == \A i \in 1 .. Len(f.frags) : f.frags[i][4] = 1
\* the flag words of the recorded manifest are exactly the ones its contents imply
FlagsReflect(f, stable) ==
   /\ f.r >= 0 /\ f.w >= 0
   /\ (FAnyRid(f) => FAllRid(f))
   /\ LET st == IF Len(f.frags) = 0 THEN stable ELSE FAllRid(f) IN
      /\ Bits(f.r) = ImpliedR(FHasDel(f), st, f.base)
      /\ Bits(f.w) = ImpliedW(FHasDel(f), st, f.config, f.base, FALSE)
\* every data file carries the table's storage version, which is a concrete (non-alias) version name
VerOfName(s) == IF \E v \in Concrete : Display(v) = s THEN CHOOSE v \in Concrete : Display(v) = s ELSE "invalid"
FilesCarry(f) ==
   /\ VerOfName(f.dsv) # "invalid"
   /\ \A i \in 1 .. Len(f.files) : FromNumbers(<<f.files[i][1], f.files[i][2]>>) = VerOfName(f.dsv)
\* the recorded manifest is the one the table model predicts
FactsMatch(f, M) ==
   /\ Len(f.frags) = Len(M.frags)
   /\ \A i \in 1 .. Len(M.frags) :
        /\ f.frags[i][1] = M.frags[i][1] /\ f.frags[i][2] = M.frags[i][2]
        /\ f.frags[i][3] = Bool01(M.frags[i][2] < M.frags[i][1])
        /\ f.frags[i][4] = Bool01(M.stable)
   /\ f.config = M.config /\ f.base = M.base
   /\ f.dsv = Display(M.ver)

\* ---- judgement of the stateless events -----------------------------------------------------
SeqOfPairs(fr) == fr
PureOK(e) ==
  LET k == e[1] IN
  CASE k = "univ" -> e[2] = NKnown /\ e[3] = NUnknown
    [] k = "can_read"  -> e[4] = CanRead(Bits(e[3]))
    [] k = "can_write" -> e[4] = CanWrite(Bits(e[3]))
    [] k = "apply" ->
         LET frags == e[3] enable == e[4] notxn == e[5] config == e[6] base == e[7] IN
         IF ApplyOk(frags, enable)
         THEN /\ e[9] = "ok" /\ e[10] >= 0 /\ e[11] >= 0
              /\ Bits(e[10]) = ApplyR(frags, enable, base)
              /\ Bits(e[11]) = ApplyW(frags, enable, config, base, notxn)
         ELSE e[9] = "invalid"
    [] k = "parse" -> /\ e[2] \in 1 .. Len(VersionStrings) /\ VersionStrings[e[2]].s = e[3]
                      /\ ParseOK(VersionStrings[e[2]], e[4], e[5])
    [] k = "variant" -> VariantOK(e[2], e[3], e[4], e[5], e[6], e[7], e[8], e[9])
    [] k = "from_numbers" -> FromNumbersOK(<<e[2], e[3]>>, e[4], e[5])
    [] k = "infer" -> e[3] = InferSem(e[2])
    [] k = "gate_univ" -> /\ {e[2][i] : i \in 1 .. Len(e[2])} = ReadOps
                          /\ {e[3][i] : i \in 1 .. Len(e[3])} = WriteOps
    [] OTHER -> FALSE

\* ---- the gate ------------------------------------------------------------------------------
GateOK(e) ==
  LET op == e[2] handle == e[3] ur == e[4] uw == e[5] phase == e[7] res == e[8]
      before == e[9] after == e[10] hv == e[11] IN
  IF phase = "setup-failed" THEN FALSE
  ELSE IF op \in ReadOps THEN
     IF ur # 0 THEN res = "unsupported" /\ hv # 0        \* refused; no handle of ours sits on version P
     ELSE res = "ok" /\ hv = 0                           \* readers ignore the writer word
  ELSE IF op \in WriteOps THEN
     IF phase = "open-refused" THEN ur # 0
     \* a detached commit through a stale handle is built on the handle's (clean) version and never becomes
     \* the latest one: nothing to refuse
     ELSE IF op = "commit_detached" /\ handle = "stale" THEN after = before
     ELSE IF uw # 0
          THEN /\ after = before                          \* nothing committed over the unknown bit
               /\ IF handle = "fresh" THEN res = "unsupported" ELSE res # "ok"
          \* (a detached commit never becomes the latest version)
          ELSE IF op = "commit_detached" THEN res = "ok" /\ after = before
          ELSE IF handle = "fresh" THEN res = "ok" /\ after > before
               ELSE res \in {"ok", "retryable", "incompatible"} /\ (res = "ok" => after > before)
  ELSE FALSE
\* finding class = the deviation of FeatureFlags.tla that explains the event
GateClass(e) ==
  LET op == e[2] handle == e[3] ur == e[4] uw == e[5] IN
  IF e[7] = "setup-failed" THEN <<"setup", "setup-failed">>
  ELSE IF op \in ReadOps THEN
     IF ur # 0 THEN (IF op = "refresh" THEN <<"ReadersRefuseUnknown", "UncheckedRefresh">>
                     ELSE <<"ReadersRefuseUnknown", "none:" \o op>>)
     ELSE <<"control", "read:" \o op>>
  ELSE IF uw # 0 THEN
     IF op = "commit_detached" THEN <<"WritersRefuseUnknown", "DetachedCommitUnchecked">>
     ELSE IF handle = "stale" THEN <<"WritersRefuseUnknown", "StaleHandleNotRechecked">>
     ELSE IF op \in {"append", "overwrite"} THEN <<"WritersRefuseUnknown", "none:" \o op>>
     ELSE <<"WritersRefuseUnknown", "UncheckedWritePath">>
  ELSE <<"control", "write:" \o op>>

Init == /\ l = 1 /\ bad = <<>> /\ cnt = [o \in Counters |-> 0] /\ alive = FALSE
        /\ T = InitT(FALSE, "V2_0")

Add(b, x) == IF Len(b) < 400 THEN Append(b, x) ELSE b
Bump(c, ks) == [o \in Counters |-> IF o \in ks THEN c[o] + 1 ELSE c[o]]

Next ==
  /\ l <= N
  /\ l' = l + 1
  /\ LET e == Rec[l] k == e[1] IN
     IF k \notin Kinds THEN
        /\ bad' = Add(bad, <<l, "unknown-kind", "unknown-kind", "">>) /\ UNCHANGED <<cnt, T, alive>>
     ELSE IF k = "reset" THEN
        LET M == InitT(e[3], e[4]) IN
        /\ T' = M
        /\ cnt' = Bump(cnt, {"reset"})
        /\ IF e[6] # "ok" THEN /\ alive' = FALSE /\ bad' = Add(bad, <<l, "reset", "effect", e[6]>>)
           ELSE LET f == e[7]
                    nameok == e[5] \in DOMAIN DocNames /\ Resolve(DocNames[e[5]]) = e[4] IN
                /\ alive' = (nameok /\ FactsMatch(f, M))
                /\ bad' = IF ~(nameok /\ FactsMatch(f, M)) THEN Add(bad, <<l, "reset", "effect", e[5]>>)
                          ELSE IF ~FlagsReflect(f, M.stable) THEN Add(bad, <<l, "reset", "FlagsReflectContents", "create">>)
                          ELSE IF ~FilesCarry(f) THEN Add(bad, <<l, "reset", "FilesCarryTableVersion", "create">>)
                          ELSE bad
     ELSE IF k = "step" THEN
        IF ~alive THEN /\ cnt' = Bump(cnt, {"step_skipped"}) /\ UNCHANGED <<bad, T, alive>>
        ELSE
        LET op == e[4] f == e[6]
            M == Effect(op, T)
            conf == e[5] = "ok" /\ Enabled(op, T) /\ FactsMatch(f, M) IN
        /\ T' = M
        /\ alive' = conf
        /\ cnt' = Bump(cnt, {"step"}
                     \cup (IF conf /\ FHasDel(f) THEN {"step_del"} ELSE {})
                     \cup (IF conf /\ f.base THEN {"step_base"} ELSE {})
                     \cup (IF conf /\ f.config THEN {"step_config"} ELSE {})
                     \cup (IF conf /\ M.stable THEN {"step_stable"} ELSE {})
                     \cup (IF conf /\ M.ver # T.ver THEN {"step_switch"} ELSE {}))
        /\ bad' = IF ~conf THEN Add(bad, <<l, "step", "effect", op[1]>>)
                  ELSE IF ~FlagsReflect(f, M.stable) THEN Add(bad, <<l, "step", "FlagsReflectContents", op[1]>>)
                  ELSE IF ~FilesCarry(f) THEN Add(bad, <<l, "step", "FilesCarryTableVersion", op[1]>>)
                  ELSE bad
     ELSE IF k = "gate" THEN
        /\ UNCHANGED <<T, alive>>
        /\ cnt' = Bump(cnt, {"gate"} \cup (IF e[4] # 0 \/ e[5] # 0 THEN {"gate_unknown"} ELSE {"gate_control"}))
        /\ bad' = IF GateOK(e) THEN bad ELSE Add(bad, <<l, "gate", GateClass(e), e[2]>>)
     ELSE
        /\ UNCHANGED <<T, alive>>
        /\ cnt' = Bump(cnt, {k} \cup (IF k = "apply" /\ e[9] # "ok" THEN {"apply_err"} ELSE {}))
        /\ bad' = IF PureOK(e) THEN bad ELSE Add(bad, <<l, k, "operator", IF k = "variant" THEN e[2] ELSE "">>)
TraceSpec == Init /\ [][Next]_tvars

Report == (l = N + 1) =>
            PrintT(<<"REPORT", ToJson([events |-> N, bad |-> bad, counts |-> cnt, NBits |-> NBits,
                                         nstrings |-> Len(VersionStrings),
                                         nread |-> Cardinality(ReadOps), nwrite |-> Cardinality(WriteOps)])>>)
TraceAccepted == TLCGet("stats").diameter = N + 1
=============================================================================
