------------------------ MODULE Trace_IndexAlgebra ------------------------
(* Validates recorded calls of the real RowIdTreeMap / RowIdMask /
   ScalarIndexExpr::evaluate (harness/src/bin/vh_idxalg.rs) against the set
   semantics of IndexAlgebraOps.  One event per line; every event is judged
   independently (the component is stateless), failures are collected in
   `bad` (position, operator, case class) and reported by the postcondition,
   so one TLC run classifies the whole trace.                               *)
EXTENDS IndexAlgebraOps, Json, IOUtils, SequencesExt

CONSTANT Dense       \* TRUE iff the embedding maps offsets 0..NR to consecutive integers

Rec == ndJsonDeserialize(IOEnv.TRACE)
N   == Len(Rec)

VARIABLES l, bad, cnt, skipped
tvars == <<l, bad, cnt, skipped>>

NU == (NF+1)*(NR+1)
NMask == (T+1)*(T+1)
UOf(i) == <<i \div (NR+1), i % (NR+1)>>
InRange(kind, lo, hi, i) ==
   CASE kind = "incl" -> lo <= i /\ i <= hi
     [] kind = "excl" -> lo <= i /\ i < hi
     [] kind = "exin" -> lo < i /\ i <= hi
     [] kind = "from" -> lo <= i
     [] kind = "to"   -> i < lo
     [] kind = "toin" -> i <= lo
     [] kind = "full" -> TRUE
RangeSet(kind, lo, hi) == {u \in U : InRange(kind, lo, hi, Idx(u))}

RECURSIVE IvOf(_)
IvOf(t) == CASE t[1] = "L" -> LeafIv(t[2], SemTM(t[3]))
             [] t[1] = "N" -> NotIv(IvOf(t[2]))
             [] t[1] = "A" -> AndIv(IvOf(t[2]), IvOf(t[3]))
             [] t[1] = "O" -> OrIv(IvOf(t[2]), IvOf(t[3]))

SortedIdx(S) == SetToSortSeq({Idx(u) : u \in S}, <)
MaskKind(mc) == IF AllowOf(mc) = -1 THEN (IF BlockOf(mc) = -1 THEN "none-none" ELSE "block-only")
                ELSE (IF BlockOf(mc) = -1 THEN "allow-only" ELSE "allow-block")
TMHasEmptyPartial(c) == \E f \in Frags : Digit(c, f) = 2
MaskHasEmptyPartial(mc) == (AllowOf(mc) # -1 /\ TMHasEmptyPartial(AllowOf(mc)))
                           \/ (BlockOf(mc) # -1 /\ TMHasEmptyPartial(BlockOf(mc)))

\* The judgement: is the recorded result what set semantics requires?
OK(e) ==
  LET op == e[1] IN
  CASE op = "univ" -> e[2] = NF /\ e[3] = NR /\ (e[4] = "dense") = Dense
    [] op = "tm_contains" -> FromBits(e[3]) = SemTM(e[2])
    [] op = "tm_len" -> IF HasFull(e[2]) THEN e[3] = -1
                        ELSE e[3] = Cardinality(SemTM(e[2]))
    \* is_empty: TRUE only for empty sets, and TRUE whenever there is no entry at all
    \* (an entry holding an empty bitmap may conservatively answer FALSE)
    [] op = "tm_is_empty" -> (e[3] => SemTM(e[2]) = {}) /\ (NoEntries(e[2]) => e[3])
    [] op = "tm_iter" -> IF HasFull(e[2]) THEN e[3] = <<-1>>
                         ELSE e[3] = SortedIdx(SemTM(e[2]))
    [] op = "tm_ser" -> FromBits(e[3]) = SemTM(e[2]) /\ e[4]
    [] op = "tm_insert" -> /\ FromBits(e[5]) = SemTM(e[2]) \cup {UOf(e[3])}
                           /\ e[4] = (UOf(e[3]) \notin SemTM(e[2]))
    [] op = "tm_remove" -> /\ FromBits(e[5]) = SemTM(e[2]) \ {UOf(e[3])}
                           /\ e[4] = (UOf(e[3]) \in SemTM(e[2]))
    [] op = "tm_range" ->
          /\ e[6] # -9     \* no panic
          /\ FromBits(e[7]) = SemTM(e[2]) \cup RangeSet(e[3], e[4], e[5])
          /\ (Dense /\ e[6] >= 0 /\ e[3] \in {"incl", "excl", "exin"}
                /\ UOf(e[4])[1] = UOf(e[5])[1])
               => e[6] = Cardinality(RangeSet(e[3], e[4], e[5]) \ SemTM(e[2]))
    [] op = "tm_or"  -> FromBits(e[4]) = SemTM(e[2]) \cup SemTM(e[3])
    [] op = "tm_and" -> FromBits(e[4]) = SemTM(e[2]) \cap SemTM(e[3])
    [] op = "tm_sub" -> FromBits(e[4]) = SemTM(e[2]) \ SemTM(e[3])
    [] op = "tm_mask" -> FromBits(e[4]) = SemTM(e[2]) \cap SelectedC(e[3])
    [] op = "m_sel" -> FromBits(e[3]) = SelectedC(e[2])
    [] op = "m_not" -> FromBits(e[3]) = U \ SelectedC(e[2])
    [] op = "m_norm" -> FromBits(e[3]) = SelectedC(e[2]) /\ e[4]
    \* max_len: an upper bound on the number of selected rows, or unknown
    [] op = "m_max_len" -> IF AllowOf(e[2]) = -1 \/ HasFull(AllowOf(e[2])) THEN e[3] = -1
                           ELSE e[3] = -1 \/ e[3] >= Cardinality(SelectedC(e[2]))
    \* iter_ids may decline (-1); when it answers it must list exactly the selected rows
    [] op = "m_iter" -> IF AllowOf(e[2]) = -1 \/ HasFull(AllowOf(e[2])) THEN e[3] = <<-1>>
                        ELSE e[3] = <<-1>> \/ e[3] = SortedIdx(SelectedC(e[2]))
    [] op = "m_arrow" -> FromBits(e[3]) = SelectedC(e[2])
    [] op = "m_selidx" -> e[3] = SortedIdx(SelectedC(e[2]))
    [] op = "m_also_allow" -> FromBits(e[4]) = SelectedC(e[2]) \cup
                                 (IF AllowOf(e[2]) = -1 THEN {}
                                  ELSE SemTM(e[3]) \ (IF BlockOf(e[2]) = -1 THEN {} ELSE SemTM(BlockOf(e[2]))))
    [] op = "m_also_block" -> FromBits(e[4]) = SelectedC(e[2]) \ SemTM(e[3])
    [] op = "m_and" -> FromBits(e[4]) = SelectedC(e[2]) \cap SelectedC(e[3])
    [] op = "m_or"  -> FromBits(e[4]) = SelectedC(e[2]) \cup SelectedC(e[3])
    [] op = "ev" -> GuaranteeHolds(e[3], FromBits(e[4]), IvOf(e[2]))
    [] OTHER -> FALSE

\* Case class of an event: the finding signature is (operator, class)
Class(e) ==
  LET op == e[1] IN
  CASE op \in {"m_not", "m_norm", "m_iter", "m_max_len", "m_arrow", "m_sel", "m_selidx"} -> MaskKind(e[2])
    [] op \in {"m_and", "m_or"} -> <<MaskKind(e[2]), MaskKind(e[3])>>
    [] op = "tm_range" -> <<e[3], IF e[4] = e[5] THEN "lo=hi" ELSE IF e[4] < e[5] THEN "lo<hi" ELSE "lo>hi",
                            IF e[4] = 0 THEN "lo=0" ELSE "lo>0">>
    [] op = "ev" -> <<e[2][1], e[3]>>
    [] OTHER -> "any"

Ops == {"univ","tm_contains","tm_len","tm_is_empty","tm_iter","tm_ser","tm_insert","tm_remove",
        "tm_range","tm_or","tm_and","tm_sub","tm_mask","m_sel","m_not","m_norm","m_max_len",
        "m_iter","m_arrow","m_selidx","m_also_allow","m_also_block","m_and","m_or","ev"}

Init == l = 1 /\ bad = <<>> /\ cnt = [o \in Ops |-> 0] /\ skipped = <<>>
Next == /\ l <= N
        /\ l' = l + 1
        /\ LET e == Rec[l] IN
           \* the driver's account of sampled-out costly cases is carried into the report
           /\ skipped' = IF e[1] = "skipped" THEN e[2] ELSE skipped
           /\ bad' = IF e[1] = "skipped" THEN bad ELSE IF e[1] \in Ops /\ OK(e) THEN bad
                     ELSE IF Len(bad) < 200 THEN Append(bad, <<l, e[1], IF e[1] \in Ops THEN Class(e) ELSE "unknown-op">>)
                     ELSE bad
           /\ cnt' = IF e[1] \in Ops THEN [cnt EXCEPT ![e[1]] = @ + 1] ELSE cnt
TraceSpec == Init /\ [][Next]_tvars

\* Reported at the end of the run (the state with l = N+1 is the last one).
Report == (l = N + 1) =>
            PrintT(<<"REPORT", ToJson([events |-> N, bad |-> bad, counts |-> cnt, skipped |-> skipped,
                                         T |-> T, NMask |-> NMask, NU |-> NU])>>)
TraceAccepted == TLCGet("stats").diameter = N + 1
=============================================================================
