--------------------------- MODULE Trace_IoSched ---------------------------
(* Validates what harness/src/bin/vh_iosched.rs recorded on the real
   lance-io / lance-file code (property C30).  One event per line; two event
   families, one per trace file:

   pure   ["univ", fileLen, maxRanges, class, maxIop, part, parts, nlists, fileBytes]
          ["req", api, block, chunk, ranges, outcome, buffers, reads, msg]      ["end", n]
          every "req" is judged on its own against the MEANING of IoSchedOps
          (one buffer per range, in order, the file's bytes); a failure is
          collected in `bad` with the case class as signature.  The as-built
          transcription is evaluated too and its agreement with the recorded
          outcome and reads is *counted* (information about the fidelity of the
          transcription, never a failure).

   conc   ["Begin", n, cap, budget, reqs] ["Submit", r] ["Issue", r, k] ["Idle", inflight]
          ["Complete", r, k] ["Resolved", r, outcome, buffers] ["Pending", r] ["Close"]
          ["Abandon", r] ["Drain"] ["End", unresolved]
          replayed on the queue machine of IoSched: every event must be an
          enabled action (guard) and moves the model (effect); the counters
          the driver cannot observe (iops_avail, bytes_avail,
          priorities_in_flight) are inferred by the actions.  Liveness is bound
          by the quiescence observations: at "Idle" the implementation has
          stopped issuing, so no pop the queue is *obliged* to take may be
          enabled in the model (else: lost wake-up), at "Pending" the model
          must not have the response ready, at "End" (everything completed and
          polled) no request may be unresolved (hang).
          Zero-byte iops (zero-length ranges) never reach the driver's store:
          their Pop + Complete are inferred as silent steps (SilentStep below).
   After the first rejected event of a scenario the rest of it is skipped.   *)
EXTENDS IoSched, IOUtils

CONSTANT AgreeEvery   \* the as-built transcription is compared on every AgreeEvery-th event

Rec == ndJsonDeserialize(IOEnv.TRACE)
N   == Len(Rec)

VARIABLES l, bad, cnt, skip, scn, maxIopV, feat, diff
tvars == <<cap, bud, rstate, istate, flight, iopsAvail, bytesAvail, prios, closed, bypass, hist, case,
           l, bad, cnt, skip, scn, maxIopV, feat, diff>>

Keys == {"univ", "req", "end", "good", "sampled", "agree", "readsagree", "nontrivial",
         "Begin", "Submit", "Issue", "Idle", "Complete", "Resolved", "Pending", "Close", "Abandon",
         "Drain", "End", "ok", "err", "sc_bypass", "sc_blocked", "sc_close", "sc_cancel",
         "sc_partial", "skipped", "unknown", "Silent", "sc_zero", "sc_fuzzy", "sc_zerobypass"}
Bump(c, k) == [c EXCEPT ![k] = @ + 1]
RECURSIVE BumpAll(_, _)
BumpAll(c, S) == IF S = {} THEN c ELSE LET k == CHOOSE x \in S : TRUE IN BumpAll(Bump(c, k), S \ {k})

KeepQ == UNCHANGED <<rstate, istate, flight, iopsAvail, bytesAvail, prios, closed, bypass>>
\* failures are aggregated by signature <<kind, class>>: <<signature, count, first line, first scenario>>
Flag(kind, class) ==
  LET sig == <<kind, class>> IN
  bad' = IF \E j \in 1..Len(bad) : bad[j][1] = sig
         THEN [j \in 1..Len(bad) |-> IF bad[j][1] = sig THEN <<sig, bad[j][2] + 1, bad[j][3], bad[j][4]>> ELSE bad[j]]
         ELSE IF Len(bad) < 100 THEN Append(bad, <<sig, 1, l, scn>>) ELSE bad

(***************************************************************************)
(* pure family                                                              *)
(***************************************************************************)
NonEmptyReads(rds) == SelectSeq(rds, LAMBDA r : r[1] # r[2])
AsSet(sq) == {sq[j] : j \in 1..Len(sq)}
\* does the as-built transcription predict the recorded outcome / the reads seen by the store
\* (the store sees them in heap order, hence the comparison as sets)
Agrees(api, rs, block, chunk, oc, bufs) ==
  LET model == SubmitApi(api, rs, block, maxIopV, chunk, TRUE)
  IN IF model[1] = "panic" THEN oc = "panic"
     ELSE oc = "ok" /\ bufs = [i \in 1..Len(model[2]) |-> BytesOf(model[2][i])]
ReadsAgree(api, rs, block, chunk, rds) ==
  LET mrds == NonEmptyReads(Reads(FileRanges(api, rs, chunk), block, maxIopV, TRUE))
  IN IF block >= FileLen THEN AsSet(rds) \subseteq {<<-1, -1>>}      \* SmallReader: one read of the whole object
     ELSE Len(rds) = Len(mrds) /\ AsSet(rds) = AsSet(mrds)
B(x) == IF x THEN 1 ELSE 0
ReqJudge(e) ==
  LET api == e[2]  block == e[3]  chunk == e[4]  rs == e[5]  oc == e[6]  bufs == e[7]  rds == e[8]
      good   == oc = "ok" /\ bufs = [i \in 1..Len(rs) |-> BytesOf(Positions(rs[i]))]
      sample == l % AgreeEvery = 0
      agree  == sample /\ Agrees(api, rs, block, chunk, oc, bufs)
      ragree == sample /\ ReadsAgree(api, rs, block, chunk, rds)
  IN /\ cnt' = [cnt EXCEPT !["req"] = @ + 1, !["good"] = @ + B(good), !["sampled"] = @ + B(sample),
                           !["agree"] = @ + B(agree), !["readsagree"] = @ + B(ragree),
                           !["nontrivial"] = @ + B(Len(rds) # Len(rs) \/ AsSet(rds) # AsSet(rs))]
     /\ IF good THEN bad' = bad
        ELSE Flag("req", <<Class(api, rs, block, maxIopV, chunk), api,
                           IF oc # "ok" THEN oc ELSE IF Len(bufs) # Len(rs) THEN "fewer-buffers" ELSE "wrong-bytes">>)
     /\ diff' = IF ~sample \/ (agree /\ ragree) \/ Len(diff) >= 20 THEN diff ELSE Append(diff, l)

(***************************************************************************)
(* concurrent family                                                        *)
(***************************************************************************)
CodeOfReq(q) == LET sz == q[3]
                    dg(x) == IF x = 0 THEN 9 ELSE x      \* a zero-length range is digit 9
                IN q[1] * 10000 + q[2] * 1000 + dg(sz[1]) * 100
                   + (IF Len(sz) >= 2 THEN dg(sz[2]) * 10 ELSE 0) + (IF Len(sz) >= 3 THEN dg(sz[3]) ELSE 0)
BeginOK(e) == /\ e[3] \in Capacities /\ e[4] \in Budgets
              /\ {CodeOfReq(e[5][j]) : j \in 1..Len(e[5])} = ReqCodes
ResetQ == /\ rstate' = [r \in ReqIds |-> "new"]
          /\ istate' = [i \in Iops |-> "none"]
          /\ flight' = <<>> /\ iopsAvail' = cap' /\ bytesAvail' = bud'
          /\ prios' = [p \in PrioVals |-> 0] /\ closed' = FALSE /\ bypass' = {}
WantBufs(r) == [k \in 1..NIops(r) |-> BytesOf(Positions(IopRange(<<r, k>>)))]
IssueReason(i) == IF i \notin Iops THEN "issue-unknown"
                  ELSE IF istate[i] # "pending" THEN "issue-not-pending"
                  ELSE IF iopsAvail = 0 THEN "issue-over-capacity"
                  ELSE IF i \notin Candidates THEN "issue-priority-order"
                  ELSE "issue-over-budget"
\* something is queued, a slot is free, and the budget holds it back
Blocked == PendingIops # {} /\ iopsAvail > 0 /\ \E i \in Candidates : ~CanDeliver(i)

Reject(kind, class) == /\ Flag(kind, class) /\ skip' = TRUE /\ KeepQ
                       /\ UNCHANGED <<feat>> /\ cnt' = Bump(cnt, kind)
Accept(kind) == /\ bad' = bad /\ skip' = skip /\ cnt' = Bump(cnt, kind)

ConcStep(e) ==
  LET k == e[1] IN
  IF k = "Begin" THEN
       /\ scn' = e[2] /\ cap' = e[3] /\ bud' = e[4] /\ ResetQ /\ feat' = {}
       /\ cnt' = Bump(cnt, "Begin")
       /\ IF BeginOK(e) THEN bad' = bad /\ skip' = FALSE
          ELSE Flag("Begin", "config-mismatch") /\ skip' = TRUE
  ELSE IF skip THEN
       /\ KeepQ /\ UNCHANGED <<cap, bud, bad, skip, scn, feat>> /\ cnt' = Bump(cnt, "skipped")
  ELSE /\ scn' = scn /\ UNCHANGED <<cap, bud>>
       /\ CASE k = "Submit" ->
                 IF e[2] \in ReqIds /\ SubmitGuard(e[2])
                 THEN SubmitEffect(e[2]) /\ Accept(k) /\ UNCHANGED feat
                 ELSE Reject(k, "submit-not-enabled")
            [] k = "Issue" ->
                 LET i == <<e[2], e[3]>> IN
                 IF i \in Iops /\ PopGuard(i)
                 THEN /\ PopEffect(i) /\ Accept(k)
                      \* sc_zerobypass: admitted over budget by the priority rule after a request of
                      \* zero bytes was consumed (its priority must have left priorities_in_flight)
                      /\ feat' = feat \cup (IF Size(i) > bytesAvail THEN {"sc_bypass"} ELSE {})
                                      \cup (IF Size(i) > bytesAvail /\ "sc_zero" \in feat
                                            THEN {"sc_zerobypass"} ELSE {})
                 ELSE Reject(k, IssueReason(i))
            [] k = "Idle" ->
                 IF Len(flight) # e[2] THEN Reject(k, "inflight-count")
                 ELSE IF StrictEnabled THEN Reject(k, "pop-not-taken")
                 ELSE /\ KeepQ /\ Accept(k)
                      /\ feat' = feat \cup (IF Blocked THEN {"sc_blocked"} ELSE {})
            [] k = "Complete" ->
                 LET i == <<e[2], e[3]>> IN
                 IF i \in Iops /\ CompleteGuard(i)
                 THEN CompleteEffect(i) /\ Accept(k) /\ UNCHANGED feat
                 ELSE Reject(k, "complete-not-in-flight")
            [] k = "Resolved" ->
                 LET r == e[2] IN
                 IF r \notin ReqIds \/ ~ConsumeGuard(r) THEN Reject(k, "resolved-not-ready")
                 ELSE IF e[3] # Outcome(r) THEN Reject(k, <<"wrong-outcome", Outcome(r), e[3]>>)
                 ELSE IF e[3] = "ok" /\ e[4] # WantBufs(r) THEN Reject(k, "wrong-bytes")
                 ELSE /\ ConsumeEffect(r) /\ bad' = bad /\ skip' = skip
                      /\ cnt' = Bump(Bump(cnt, k), e[3])
                      /\ feat' = feat \cup (IF e[3] = "err" THEN {"sc_cancel"} ELSE {})
                                      \cup (IF ReqBytes(r) = 0 THEN {"sc_zero"} ELSE {})
                                      \cup (IF e[3] = "err" /\ \E i \in IopsOf(r) : istate[i] = "done"
                                            THEN {"sc_partial"} ELSE {})
            [] k = "Pending" ->
                 \* (after an ambiguous silent step the model may be ahead of the implementation for a
                 \* request that has zero-byte iops: then "pending" is not judged)
                 IF e[2] \in ReqIds /\ rstate[e[2]] = "ready"
                    /\ ~("sc_fuzzy" \in feat /\ \E i \in IopsOf(e[2]) : Size(i) = 0)
                 THEN Reject(k, "ready-but-pending")
                 ELSE KeepQ /\ Accept(k) /\ UNCHANGED feat
            [] k = "Close" ->
                 IF CloseGuard THEN CloseEffect /\ Accept(k) /\ feat' = feat \cup {"sc_close"}
                 ELSE Reject(k, "close-twice")
            [] k = "Abandon" ->
                 IF e[2] \in ReqIds /\ AbandonGuard(e[2])
                 THEN AbandonEffect(e[2]) /\ Accept(k) /\ UNCHANGED feat
                 ELSE Reject(k, "abandon-not-enabled")
            [] k = "Drain" -> KeepQ /\ Accept(k) /\ UNCHANGED feat
            [] k = "End" ->
                 IF e[2] # <<>> THEN Reject(k, <<"hang", e[2]>>)
                 ELSE IF \E r \in ReqIds : rstate[r] \in {"waiting", "ready"}
                      THEN Reject(k, "model-unfinished")
                 ELSE /\ KeepQ /\ bad' = bad /\ skip' = skip /\ feat' = feat
                      /\ cnt' = BumpAll(cnt, {"End"} \cup feat)
            [] OTHER -> Reject("unknown", k)

Init0 == /\ Init
         /\ l = 1 /\ bad = <<>> /\ cnt = [k \in Keys |-> 0] /\ skip = FALSE /\ scn = 0
         /\ maxIopV = 0 /\ feat = {} /\ diff = <<>>

ConsumeEvent ==
  /\ l <= N /\ l' = l + 1
  /\ UNCHANGED <<hist, case>>
  /\ LET e == Rec[l] IN
     IF e[1] = "univ" THEN
          /\ KeepQ /\ UNCHANGED <<cap, bud, skip, scn, feat, diff>>
          /\ maxIopV' = e[5] /\ cnt' = Bump(cnt, "univ")
          /\ IF e[2] = FileLen /\ e[9] = [p \in 1..FileLen |-> Byte(p - 1)]
             THEN bad' = bad ELSE Flag("univ", "file-mismatch")
     ELSE IF e[1] = "req" THEN
          /\ KeepQ /\ UNCHANGED <<cap, bud, skip, scn, feat, maxIopV>> /\ ReqJudge(e)
     ELSE IF e[1] = "end" THEN
          /\ KeepQ /\ UNCHANGED <<cap, bud, skip, scn, feat, maxIopV, diff>> /\ cnt' = Bump(cnt, "end")
          /\ IF e[2] = cnt["req"] THEN bad' = bad ELSE Flag("end", "count-mismatch")
     ELSE /\ UNCHANGED <<maxIopV, diff>> /\ ConcStep(e)
\* Zero-byte iops never reach the driver's object store.  The implementation is quiescent when an
\* event other than those produced by the store is recorded, so every zero-byte iop the queue could
\* pop has been popped and answered by then: the model takes these steps (one TLC step each, the
\* line counter stands still) before it consumes the next event.  The choice is deterministic.
\* If a zero-byte iop is taken while another task of the same priority is not deliverable, the
\* heap may in fact have that other task on top: the scenario is marked "sc_fuzzy".
SilentIops == {i \in Iops : SilentGuard(i)}
SilentNow == /\ l <= N /\ ~skip /\ Rec[l][1] \notin {"Begin", "univ", "req", "end"}
             /\ SilentIops # {}
SilentStep == LET i == CHOOSE x \in SilentIops : TRUE IN
   /\ SilentEffect(i)
   /\ UNCHANGED <<cap, bud, hist, case, l, bad, skip, scn, maxIopV, diff>>
   /\ cnt' = Bump(cnt, "Silent")
   /\ feat' = feat \cup (IF StrictEnabled THEN {} ELSE {"sc_fuzzy"})
TraceNext == IF SilentNow THEN SilentStep ELSE ConsumeEvent
TraceSpec == Init0 /\ [][TraceNext]_tvars

Report == (l = N + 1) =>
   PrintT(<<"REPORT", ToJson([events |-> N, bad |-> bad, counts |-> cnt, diff |-> diff])>>)
\* one path; every line consumed (silent steps make it longer than the trace)
TraceAccepted == TLCGet("stats").diameter >= N + 1
=============================================================================
