------------------------- MODULE Trace_LanceCommit -------------------------
(* Validates storage-call traces of the real lance commit code (recorded by harness/src/gate.rs and
   harness/src/bin/vh_commit.rs) against LanceCommit.

   One ndjson line per event.  A file holds many scenarios, each starting with a "reset" event that
   carries the scenario (handler, naming, operations) -- it re-initialises the model.
     call (g=1)  a gated storage / external-store / lease call: must be the next call of that actor's
                 program (some LanceCommit action of that actor, with the recorded fault, is enabled,
                 produces the recorded label and the recorded post-state of _versions / the external
                 store / the lease).  Otherwise: nonconformance; the rest of the scenario is skipped.
     call (g=0)  an ungated GET below _versions: the content read must be the model's content.
     crash       the actor's task was dropped while blocked at the gate.
     ret         an API call returned: result class and version must be the model's.
     final       the fresh reader's findings: versions(), latest, per version checkout/scan/validate.
   All LanceCommit invariants are evaluated on every state of every implementation trace; failures
   are collected in `bad` (not more than one per scenario and invariant) and reported at the end.   *)
EXTENDS LanceCommit, Json, IOUtils

Rec == ndJsonDeserialize(IOEnv.TRACE)
N   == Len(Rec)

VARIABLES l,        \* next event
          bad,      \* collected failures
          skip,     \* rest of the current scenario is ignored (after a nonconformance)
          scn,      \* id of the current scenario
          reported, \* invariants already reported in the current scenario
          cnt,      \* counters
          cov,      \* program counter -> number of matched calls (vacuity control)
          fin,      \* version -> content hash id last recorded at its final manifest path (from the snapshots)
          hbad      \* recorded-hash failures: judged on the gate's snapshots alone, also while `skip`
tvars == <<l, bad, skip, scn, reported, cnt, cov, fin, hbad>>
allvars == <<vars, tvars>>

BigBudget == [fail |-> 1000, lost |-> 1000, crash |-> 1000]
Cnt0 == [scenarios |-> 0, calls |-> 0, gets |-> 0, rets |-> 0, crashes |-> 0, finals |-> 0,
         faults |-> 0, publications |-> 0, skipped |-> 0, invEvals |-> 0, versionsRead |-> 0,
         conflicts |-> 0, repairs |-> 0, bareExtGetFinal |-> 0, bareCommits |-> 0]

\* ---- scenario -------------------------------------------------------------------------------------
ActorSpec(e, a) == LET idx == {i \in 1..Len(e.actors) : e.actors[i].id = a} IN
                   IF idx = {} THEN [id |-> a, op |-> "none", att |-> 1, rver |-> 0]
                   ELSE e.actors[CHOOSE i \in idx : TRUE]
CfgOf(e) == [handler |-> e.handler, v2 |-> (e.naming = "v2"), init |-> e.init,
             op   |-> [a \in Actors |-> ActorSpec(e, a).op],
             att  |-> [a \in Actors |-> ActorSpec(e, a).att],
             rver |-> [a \in Actors |-> ActorSpec(e, a).rver],
             dev  |-> Deviations]

\* ---- projections compared with the recorded snapshots ---------------------------------------------
ToSet(s) == {s[i] : i \in 1..Len(s)}
ProjObj(o) == {<<p[1], p[2], p[3], o[p]>> : p \in DOMAIN o}
ProjExt(x) == {<<v, x[v][1], x[v][3]>> : v \in DOMAIN x}
SnapOK(e, o, x, lk) == /\ ToSet(e.vs) = ProjObj(o)
                       /\ ToSet(e.ext) = ProjExt(x)
                       /\ e.lk = (IF lk = 0 THEN -1 ELSE lk)

FaultOf(out) == IF out \in {"fail", "lost"} THEN out ELSE "ok"
LabelOK(lb, e) == /\ lb.a = e.a /\ lb.op = e.op /\ lb.cls = e.cls /\ lb.v = e.v /\ lb.out = e.out
                  /\ lb.c # -1 => lb.c = e.c
ListOK(e, o) == e.op = "list" /\ e.out = "ok" => ToSet(e.ls) = {<<p[1], p[2], p[3]>> : p \in DOMAIN o}

\* the recorded call as a step of the model
MatchCall(e) ==
  /\ IF e.op = "expire" THEN Expire
     ELSE e.a \in Actors /\ Step(e.a, FaultOf(e.out), e.c)
  /\ cfg' = cfg
  /\ Ghost
  /\ e.op # "expire" => LabelOK(last', e)
  /\ SnapOK(e, obj', ext', lease')
  /\ ListOK(e, obj)

\* ---- expected table contents of a version (rows are <<key, writer tag>>) --------------------------
\* bags of rows: row -> multiplicity (a double commit shows as multiplicity 2)
BagOfSeq(sq) == [x \in ToSet(sq) |-> Cardinality({i \in 1..Len(sq) : sq[i] = x})]
BagOfSet(S)  == [x \in S |-> 1]
BagAdd(b, S) == [x \in (DOMAIN b) \cup S |-> (IF x \in DOMAIN b THEN b[x] ELSE 0) + (IF x \in S THEN 1 ELSE 0)]
BagDrop(b, S) == [x \in (DOMAIN b) \ S |-> b[x]]
R1 == {<<0, 0>>, <<1, 0>>, <<2, 0>>, <<3, 0>>}
RECURSIVE RowsOf(_)
RowsOf(v) ==
  IF v <= 1 THEN BagOfSet(R1)
  ELSE LET c == ContentAt(v)
           w == IF c \in DOMAIN owner THEN owner[c] ELSE 0
           op == IF w = 0 THEN "none" ELSE cfg.op[w]
           prev == RowsOf(v - 1) IN
       CASE op = "append"    -> BagAdd(prev, {<<100 * w, w>>, <<100 * w + 1, w>>})
         [] op = "overwrite" -> BagOfSet({<<100 * w + 50, w>>})
         [] op = "delete"    -> BagDrop(prev, {<<w - 1, 0>>})
         [] op = "restore"   -> BagOfSet(R1)
         [] OTHER            -> prev
RowsMatch(rows, v) == BagOfSeq(rows) = RowsOf(v)

ErrNorm(x) == IF x \in {"ok", "conflict", "incompatible", "retryable", "exists", "panic", "none"} THEN x ELSE "error"

\* ---- invariants of LanceCommit, by name ----------------------------------------------------------
InvTable == <<
  <<"TypeOK", TypeOK>>,
  <<"OneManifestPerVersion", OneManifestPerVersion>>,
  <<"ManifestsImmutable", ManifestsImmutableInv>>,
  <<"AtMostOneLeaseHolder", AtMostOneLeaseHolder>>,
  <<"DenseVersions", DenseVersions>>,
  <<"TargetIsLatestPlusOne", TargetIsLatestPlusOne>>,
  <<"DetachedNeverLatest", DetachedNeverLatest>>,
  <<"NoTornWrite", NoTornWrite>>,
  <<"WriteAppliedOnce", WriteAppliedOnce>>,
  <<"CommittedNeverLost", CommittedNeverLost>>,
  <<"ExtEntryResolvable", ExtEntryResolvable>>,
  <<"ExtAgreesWithFinal", ExtAgreesWithFinal>>,
  <<"ReaderRepairs", ReaderRepairs>>,
  <<"WriterFinalises", WriterFinalises>> >>
Violated == {InvTable[i][1] : i \in {j \in 1..Len(InvTable) : ~InvTable[j][2]}}

Entry(kind, sig, detail) == [pos |-> l, scn |-> scn, kind |-> kind, sig |-> sig, detail |-> detail]
AddBad(b, x) == IF Len(b) < 300 THEN Append(b, x) ELSE b
RECURSIVE AddAll(_, _)
AddAll(b, S) == IF S = {} THEN b
                ELSE LET n == CHOOSE x \in S : TRUE IN
                     AddAll(AddBad(b, Entry("invariant", <<n, last.op, last.cls, last.out>>, ToString(last))), S \ {n})

\* invariants are judged on the current state (the state after the previous event); NewViol is bound
\* once per event (LET nv == NewViol) because TLC re-evaluates a definition at every use
NewViol == Violated \ reported
JudgeInvW(b, nv) == AddAll(b, nv)
JudgeInv(b) == AddAll(b, NewViol)

Inc(c, k) == [c EXCEPT ![k] = @ + 1]
Bump(f, k) == IF k \in DOMAIN f THEN [f EXCEPT ![k] = @ + 1] ELSE (k :> 1) @@ f

ModelSame == UNCHANGED vars

\* ---- event handlers -------------------------------------------------------------------------------
ResetTo(e) ==
  LET c == CfgOf(e) IN
  /\ cfg' = c
  /\ obj' = (FinalP(1) :> 1)
  /\ ext' = IF c.handler = "external" /\ c.init = "table" THEN (1 :> FinalP(1)) ELSE <<>>
  /\ lease' = 0
  /\ budget' = BigBudget
  /\ ac' = [a \in Actors |-> StartRec(a, c)]
  /\ owner' = (1 :> 0)
  /\ published' = [v \in VRange |-> IF v = 1 THEN {1} ELSE {}]
  /\ firstFinal' = [v \in VRange |-> IF v = 1 THEN 1 ELSE 0]
  /\ pubOK' = TRUE
  /\ okRet' = {<<1, 1>>}
  /\ marks' = {}
  /\ hist' = <<>>
  /\ last' = [a |-> 0, op |-> "init", cls |-> "other", v |-> -1, c |-> -1, out |-> "ok"]
  /\ scn' = e.id
  /\ reported' = {}
  /\ cnt' = Inc(cnt, "scenarios")
  /\ cov' = cov
  /\ LET ok == ToSet(e.vs) = {<<"final", 1, 0, 1>>} /\
               ToSet(e.ext) = (IF c.handler = "external" /\ c.init = "table" THEN {<<1, "final", 0>>} ELSE {}) IN
     /\ skip' = ~ok
     /\ bad' = IF ok THEN bad
               ELSE AddBad(bad, [pos |-> l, scn |-> e.id, kind |-> "nonconformance",
                                 sig |-> <<"reset", "snapshot">>, detail |-> ToString(e.vs)])

Stutter(k) == /\ ModelSame
              /\ UNCHANGED <<bad, skip, scn, reported, cov>>
              /\ cnt' = Inc(cnt, k)

Mismatch(e, sig, detail) ==
  LET nv == NewViol IN
  /\ ModelSame
  /\ bad' = AddBad(JudgeInvW(bad, nv), Entry("nonconformance", sig, detail))
  /\ skip' = TRUE
  /\ reported' = reported \cup nv
  /\ UNCHANGED <<scn, cov>>
  /\ cnt' = [cnt EXCEPT !.invEvals = @ + Len(InvTable)]

Accept(k) ==
  LET nv == NewViol IN
  /\ bad' = JudgeInvW(bad, nv)
  /\ reported' = reported \cup nv
  /\ UNCHANGED <<skip, scn>>
  /\ cnt' = [Inc(cnt, k) EXCEPT !.invEvals = @ + Len(InvTable)]

DoCall(e) ==
  IF ENABLED MatchCall(e)
  THEN /\ MatchCall(e)
       /\ LET nv == NewViol IN bad' = JudgeInvW(bad, nv) /\ reported' = reported \cup nv
       /\ UNCHANGED <<skip, scn>>
       /\ cov' = Bump(cov, IF e.op = "expire" THEN "expire" ELSE ac[e.a].pc)
       /\ cnt' = [cnt EXCEPT !.calls = @ + 1, !.invEvals = @ + Len(InvTable),
                             !.faults = @ + (IF e.out \in {"fail", "lost"} THEN 1 ELSE 0),
                             !.conflicts = @ + (IF e.out = "exists" THEN 1 ELSE 0),
                             !.repairs = @ + (IF e.op = "copy" /\ e.a \in {3, 5, 9} THEN 1 ELSE 0),
                             \* a bare writer whose put was rejected finds the version already finalized
                             !.bareExtGetFinal = @ + (IF e.op = "ext_get" /\ e.cls = "final" /\ e.a \in {1, 2, 4}
                                                        /\ cfg.op[e.a] = "bare" THEN 1 ELSE 0),
                             !.bareCommits = @ + (IF e.a \in {1, 2, 4} /\ cfg.op[e.a] = "bare"
                                                    /\ VisibleIn(obj', ext') # Visible THEN 1 ELSE 0),
                             !.publications = @ + (IF VisibleIn(obj', ext') # Visible THEN 1 ELSE 0)]
  ELSE /\ Mismatch(e, <<"call", e.op, e.cls, e.out, IF e.a \in Actors THEN ac[e.a].pc ELSE "?">>, ToString(e.a))

\* a GET below _versions reads exactly the model's content
DoGet(e) ==
  LET p == IF e.cls = "final" THEN FinalP(e.v) ELSE IF e.cls = "staging" THEN StagingP(e.v, e.sid)
           ELSE IF e.cls = "detached" THEN DetachedP(e.v) ELSE <<"other", 0, 0>>
      ok == /\ SnapOK(e, obj, ext, lease)
            /\ IF e.out = "ok" THEN p \in DOMAIN obj /\ obj[p] = e.c ELSE p \notin DOMAIN obj IN
  IF ok THEN /\ ModelSame /\ Accept("gets") /\ cov' = cov
  ELSE /\ Mismatch(e, <<"get", e.cls, e.out>>, ToString(e.v))

DoCrash(e) ==
  IF ENABLED Crash(e.a)
  THEN /\ Crash(e.a) /\ cfg' = cfg /\ Ghost /\ Accept("crashes") /\ cov' = Bump(cov, "crash")
  ELSE Mismatch(e, <<"crash", "not-running">>, ToString(e.a))

DoRet(e) ==
  LET r == ac[e.a]
      ok == IF e.api = "open"
            THEN IF e.res = "ok" THEN r.readV = e.v /\ r.pc # "done"
                 ELSE r.pc = "done" /\ ErrNorm(r.res) = ErrNorm(e.res)
            ELSE /\ r.pc = "done"
                 /\ ErrNorm(r.res) = ErrNorm(e.res)
                 /\ (e.res = "ok" /\ e.v >= 0) => r.ver = e.v
                 /\ (e.api = "read" /\ e.res = "ok") => (e.scan = "ok" /\ RowsMatch(e.rows, e.v)) IN
  IF ok THEN /\ ModelSame /\ Accept("rets") /\ cov' = cov
  ELSE Mismatch(e, <<"ret", e.api, ErrNorm(e.res), ErrNorm(r.res)>>, ToString(<<e.a, e.v, r.ver, r.pc>>))

DoPanic(e) ==
  IF ac[e.a].pc = "done" /\ ac[e.a].res = "panic"
  THEN /\ ModelSame /\ cov' = cov
       /\ bad' = AddBad(JudgeInv(bad), Entry("deviation", <<"panic", last.op, last.cls>>, e.at))
       /\ reported' = reported \cup NewViol /\ UNCHANGED <<skip, scn>> /\ cnt' = Inc(cnt, "rets")
  ELSE Mismatch(e, <<"panic", last.op, last.cls>>, e.at)

\* pw: the writer a bare manifest names in its config (-1: none): it must be the owner of the content the
\* model has at that version
PwOK(pv) == LET c == ContentAt(pv.v)
                w == IF c \in DOMAIN owner THEN owner[c] ELSE 0 IN
            IF w # 0 /\ cfg.op[w] = "bare" THEN pv.pw = w ELSE pv.pw = -1
PerOK(pv) == /\ pv.co = "ok" /\ pv.scan = "ok" /\ pv.validate = "ok" /\ RowsMatch(pv.rows, pv.v) /\ PwOK(pv)
DoFinal(e) ==
  LET vis == {p[2] : p \in {q \in DOMAIN obj : IsFinal(q)}}
      ok == /\ e.open = "ok"
            /\ ac[9].pc = "done" /\ ac[9].res = "ok"
            /\ e.latest = LatestIn(obj, ext)
            /\ ToSet(e.versions) = vis /\ Len(e.versions) = Cardinality(vis)
            /\ \A i \in 1..Len(e.per) : PerOK(e.per[i])
            /\ Len(e.per) = Len(e.versions)
            /\ ToSet(e.vs) = ProjObj(obj) /\ ToSet(e.ext) = ProjExt(ext) IN
  IF ok THEN /\ ModelSame /\ cov' = cov
             /\ bad' = JudgeInv(bad) /\ reported' = reported \cup NewViol /\ UNCHANGED <<skip, scn>>
             /\ cnt' = [cnt EXCEPT !.finals = @ + 1, !.versionsRead = @ + Len(e.per), !.invEvals = @ + Len(InvTable)]
  \* the fresh reader cannot open the table and the model agrees (the table is broken; the invariants say why)
  ELSE IF e.open \notin {"ok", "panic"} /\ ac[9].pc = "done" /\ ac[9].res # "ok" /\ ErrNorm(ac[9].res) = ErrNorm(e.open)
       THEN /\ ModelSame /\ cov' = cov
            /\ bad' = AddBad(JudgeInv(bad), Entry("broken-table", <<"open-fails", last.op, last.cls>>, e.open))
            /\ reported' = reported \cup NewViol /\ UNCHANGED <<skip, scn>> /\ cnt' = Inc(cnt, "finals")
  ELSE IF e.open = "panic" /\ ac[9].pc = "done" /\ ac[9].res = "panic"
       THEN /\ ModelSame /\ cov' = cov
            /\ bad' = AddBad(JudgeInv(bad), Entry("deviation", <<"panic", last.op, last.cls>>, e.at))
            /\ reported' = reported \cup NewViol /\ UNCHANGED <<skip, scn>> /\ cnt' = Inc(cnt, "finals")
  ELSE Mismatch(e, <<"final", e.open, ac[9].res>>, ToString(<<e.latest, e.versions>>))

\* C02, model independent: the content hash recorded at a final manifest path never changes and never
\* disappears (no cleanup runs here); exempt: the unsafe handler.  Evaluated on every snapshot, also after a
\* nonconformance made the validator skip the rest of the scenario.
FinalsOf(vs) == LET F == {x \in ToSet(vs) : x[1] = "final"} IN
                [v \in {x[2] : x \in F} |-> (CHOOSE x \in F : x[2] = v)[4]]
FinTrack(e) ==
  IF e.ev = "reset" THEN fin' = FinalsOf(e.vs) /\ hbad' = hbad
  ELSE IF e.ev \in {"call", "final"}
  THEN LET cur == FinalsOf(e.vs)
           chg == {v \in DOMAIN fin : v \notin DOMAIN cur \/ cur[v] # fin[v]} IN
       /\ fin' = cur @@ fin
       /\ hbad' = IF chg # {} /\ cfg.handler # "unsafe" /\ Len(hbad) < 100
                  THEN Append(hbad, [pos |-> l, scn |-> scn, versions |-> chg,
                                     op |-> IF e.ev = "call" THEN e.op ELSE "final",
                                     a |-> IF e.ev = "call" THEN e.a ELSE 9])
                  ELSE hbad
  ELSE UNCHANGED <<fin, hbad>>

TInit == /\ InitWith(MCcfg) /\ budget = BigBudget
         /\ l = 1 /\ bad = <<>> /\ skip = TRUE /\ scn = -1 /\ reported = {} /\ cnt = Cnt0 /\ cov = <<>>
         /\ fin = <<>> /\ hbad = <<>>

TNext ==
  /\ l <= N
  /\ l' = l + 1
  /\ FinTrack(Rec[l])
  /\ LET e == Rec[l] IN
     IF e.ev = "reset" THEN ResetTo(e)
     ELSE IF skip THEN Stutter("skipped")
     ELSE CASE e.ev = "call" /\ e.g = 1 -> DoCall(e)
            [] e.ev = "call" /\ e.g = 0 -> DoGet(e)
            [] e.ev = "crash"           -> DoCrash(e)
            [] e.ev = "ret"             -> DoRet(e)
            [] e.ev = "panic"           -> DoPanic(e)
            [] e.ev = "final"           -> DoFinal(e)
            [] e.ev = "drain"           -> /\ ModelSame /\ UNCHANGED <<bad, skip, scn, reported, cnt, cov>>
            \* an actor still blocked when the schedule is over: only a writer waiting for a lease that
            \* will never be released (its holder's unlock failed) may be in that situation
            [] e.ev = "stuck"           -> IF ac[e.a].pc = "c_lock" /\ lease # 0
                                           THEN /\ ModelSame /\ UNCHANGED <<bad, skip, scn, reported, cnt, cov>>
                                           ELSE Mismatch(e, <<"stuck", ac[e.a].pc>>, ToString(e.a))
            [] OTHER -> Mismatch(e, <<"harness", e.ev>>, "")

TraceSpec == TInit /\ [][TNext]_allvars

Report == (l = N + 1) =>
            PrintT(<<"REPORT", ToJson([events |-> N, bad |-> bad, counts |-> cnt, cov |-> cov, hbad |-> hbad])>>)
TraceAccepted == TLCGet("stats").diameter = N + 1
=============================================================================
