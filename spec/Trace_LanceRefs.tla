--------------------------- MODULE Trace_LanceRefs ---------------------------
(* Validates recorded executions of harness/src/bin/vh_refs.rs (property C09).

   Mode = "names": one event per token sequence; the recorded accept/reject of
   check_valid_branch / check_valid_tag is compared with the documented grammar
   (LanceRefsOps!ValidBranch / ValidTag).  The events must be exactly the
   shard's slice of the length-lexicographic enumeration (position = NameIdx),
   so the number of accepted events proves completeness.

   Mode = "hist": replayed histories of branch / tag / shallow-clone operations.
   After every step the driver re-read every (location, version) it has ever
   seen, every tag, and listed the object tree.  The validator keeps the model's
   ghost state (which versions must still exist and what they contain, live
   branches with parents, tags, the previous tree listing) and judges every step:

     BranchIsolation        a version of another location reads differently after the step
     OwnHistoryKept         an old version of the written location reads differently
     TagResolves            a tag does not name / read the (location, version) it was given
     RefResolves            create_branch / shallow_clone did not produce the referenced version
     DeleteRemovesOnlyOwn   delete_branch changed files of another owner
     DeleteRemovesAllOwn    delete_branch left files of the deleted branch behind
     DeleteBranchSucceeds   delete_branch of a live branch returned an error
     OnlyOwnStorageTouched  any other step changed files of another owner
     RefListsMatch          list_branches / tags().list differ from the model
     WriteApplies / OpSucceeds   the step itself did not do what the model says

   Failures are collected in `bad`; the ghost is re-synchronised from the
   observation (or the rest of the scenario is skipped when that is not
   possible), so one TLC run classifies a whole batch of scenarios.        *)
EXTENDS LanceRefsOps, Json, IOUtils, Functions

CONSTANT Mode
Rec == ndJsonDeserialize(IOEnv.TRACE)
N   == Len(Rec)

VARIABLES l, bad, cnt,
          \* names mode
          nmeta,    \* [maxlen, shard, shards, seen]
          \* hist mode
          g,        \* <<loc, version>> -> set of rows that version must read
          lat,      \* loc -> latest version (model)
          liveB,    \* live branches
          parB,     \* branch -> <<source, version>>
          anc,      \* loc -> locations it inherited files from (transitively)
          tags,     \* tag -> <<loc, version>>
          dirty,    \* branch names whose storage was left behind by a delete
          tree,     \* previous tree listing: <<dir, ext>> -> <<n, names>>
          aborted, scn
tvars == <<l, bad, cnt, nmeta, g, lat, liveB, parB, anc, tags, dirty, tree, aborted, scn>>

SeqToSet(s) == {s[i] : i \in 1..Len(s)}
ERR == {-1}
MISSING == {-2}
GARBLED == {-3}

(***************************************************************************)
(* names mode                                                              *)
(***************************************************************************)
BranchRule(s) ==      \* first documented rule a name breaks (0 = none)
  IF Len(s) = 0 THEN 1
  ELSE IF s[1] = "/" \/ s[Len(s)] = "/" THEN 2
  ELSE IF HasPair(s, "/", "/") THEN 3
  ELSE IF HasPair(s, ".", ".") \/ (\E i \in 1..Len(s) : s[i] = "\\") THEN 4
  ELSE IF \E i \in 1..Len(s) : ~(s[i] = "/" \/ SegTok(s[i])) THEN 5
  ELSE IF EndsDotLock(s) THEN 6
  ELSE IF s = <<"main">> THEN 7 ELSE 0
TagRule(s) ==
  IF Len(s) = 0 THEN 1
  ELSE IF \E i \in 1..Len(s) : ~SegTok(s[i]) THEN 2
  ELSE IF s[1] = "." \/ s[Len(s)] = "." THEN 3
  ELSE IF EndsDotLock(s) THEN 4
  ELSE IF HasPair(s, ".", ".") THEN 5 ELSE 0
ASSUME \A s \in {<<>>, <<"a">>, <<"main">>, <<"a", "/", "b">>, <<".", "lock">>, <<"a", ".", "lock">>, <<"/">>, <<"a", ".">>} :
         (BranchRule(s) = 0) = ValidBranch(s) /\ (TagRule(s) = 0) = ValidTag(s)

NameJudge(e, vb, vt) ==     \* set of <<operator, class>>
  LET s == e[3] IN
  (IF (e[4] = "ok") = vb /\ e[4] \in {"ok", "invalidref"} THEN {}
   ELSE {<<"check_valid_branch", IF e[4] = "ok" THEN <<"accepts-despite-rule", BranchRule(s)>>
                                  ELSE IF vb THEN <<"rejects-valid-name", 0>> ELSE <<"wrong-error-kind", BranchRule(s)>>>>})
  \cup
  (IF (e[5] = "ok") = vt /\ e[5] \in {"ok", "invalidref"} THEN {}
   ELSE {<<"check_valid_tag", IF e[5] = "ok" THEN <<"accepts-despite-rule", TagRule(s)>>
                               ELSE IF vt THEN <<"rejects-valid-name", 0>> ELSE <<"wrong-error-kind", TagRule(s)>>>>})

NamesNext ==
  LET e == Rec[l] IN
  /\ UNCHANGED <<g, lat, liveB, parB, anc, tags, dirty, tree, aborted, scn>>
  /\ IF e[1] = "univ"
     THEN /\ nmeta' = [maxlen |-> e[3], shard |-> e[4], shards |-> e[5], seen |-> 0]
          /\ bad' = IF e[2] = Alphabet THEN bad ELSE Append(bad, <<l, "univ", <<"alphabet-differs", 0>>>>)
          /\ cnt' = cnt
     ELSE LET want == nmeta.shard + nmeta.seen * nmeta.shards
              posOK == e[2] = want /\ Len(e[3]) <= nmeta.maxlen /\ NameIdx(e[3]) = e[2]
              vb == ValidBranch(e[3])
              vt == ValidTag(e[3])
              js == NameJudge(e, vb, vt) IN
          /\ nmeta' = [nmeta EXCEPT !.seen = @ + 1]
          /\ bad' = IF posOK /\ js = {} THEN bad
                    ELSE IF Len(bad) < 200
                    THEN bad \o SetToSeq({<<l, j[1], j[2]>> : j \in js}
                                          \cup (IF posOK THEN {} ELSE {<<l, "enumeration", <<"position", 0>>>>}))
                    ELSE bad
          /\ cnt' = [cnt EXCEPT !["names"] = @ + 1,
                                !["branch_ok"] = @ + (IF e[4] = "ok" THEN 1 ELSE 0),
                                !["tag_ok"] = @ + (IF e[5] = "ok" THEN 1 ELSE 0),
                                !["branch_valid"] = @ + (IF vb THEN 1 ELSE 0),
                                !["tag_valid"] = @ + (IF vt THEN 1 ELSE 0)]

(***************************************************************************)
(* hist mode: reading an observation                                       *)
(***************************************************************************)
RowSet(rows) ==
  IF \A i \in 1..Len(rows) : rows[i][2] = rows[i][1] + 100 /\ \A j \in 1..Len(rows) : (rows[i][1] = rows[j][1]) => i = j
  THEN {rows[i][1] : i \in 1..Len(rows)} ELSE GARBLED
RD(obs, x, v) ==
  LET rs == {i \in 1..Len(obs.reads) : obs.reads[i].loc = x /\ obs.reads[i].v = v} IN
  IF rs = {} THEN MISSING
  ELSE LET r == obs.reads[CHOOSE i \in rs : TRUE] IN
       IF r.res = "ok" THEN (IF r.mv = v /\ r.mbranch = (IF IsCloneLoc(x) THEN MAIN ELSE x) THEN RowSet(r.rows) ELSE GARBLED) ELSE ERR
TreeOf(obs) == [k \in {<<obs.tree[i].dir, obs.tree[i].ext>> : i \in 1..Len(obs.tree)} |->
                  LET e == obs.tree[CHOOSE i \in 1..Len(obs.tree) : <<obs.tree[i].dir, obs.tree[i].ext>> = k]
                  IN <<e.n, e.names>>]
Changed(t1, t2) == {k \in DOMAIN t1 \cup DOMAIN t2 : k \notin DOMAIN t1 \/ k \notin DOMAIN t2 \/ t1[k] # t2[k]}
ObsBranches(obs) == {<<obs.branches[i].name, obs.branches[i].parent, obs.branches[i].pv>> : i \in 1..Len(obs.branches)}
ObsTags(obs) == {<<obs.tags[i].tag, obs.tags[i].loc, obs.tags[i].v>> : i \in 1..Len(obs.tags)}
TagRead(obs, t) == obs.tags[CHOOSE i \in 1..Len(obs.tags) : obs.tags[i].tag = t].read

ObsLatest(obs, x) == LET is == {i \in 1..Len(obs.latest) : obs.latest[i].loc = x} IN
                     IF is = {} THEN -2 ELSE obs.latest[CHOOSE i \in is : TRUE].v
LocKeys(f, x) == {k \in DOMAIN f : k[1] = x}
RestrictTo(f, S) == [k \in S |-> f[k]]

(***************************************************************************)
(* hist mode: the model's expectation for one step                         *)
(***************************************************************************)
SubjOf(st) ==
  CASE st.op \in {"append", "delete", "cleanup"} -> st.on
    [] st.op \in {"create_branch", "delete_branch"} -> st.name
    [] st.op = "clone" -> st.clone
    [] st.op = "init" -> MAIN
    [] OTHER -> REFS
AllowedOwners(st) ==
  CASE st.op \in {"append", "delete", "cleanup"} -> {OwnerKey(st.on)}
    [] st.op \in {"create_branch", "delete_branch"} -> {OwnerKey(st.name), REFS}
    [] st.op = "clone" -> {st.clone}
    [] st.op = "init" -> {MAIN}
    [] OTHER -> {REFS}

\* can the model apply the step at all (its inputs are intact in the ghost)?  A location damaged by an
\* earlier (reported) violation is not used again as subject, source or issuing handle.
Intact(x) == x \in DOMAIN lat /\ <<x, lat[x]>> \in DOMAIN g /\ g[<<x, lat[x]>>] \notin {ERR, GARBLED}
Applicable(st) ==
  ("via" \in DOMAIN st => Intact(st.via)) /\
  CASE st.op = "init" -> TRUE
    [] st.op \in {"append", "delete", "cleanup"} ->
         st.on \in DOMAIN lat /\ <<st.on, lat[st.on]>> \in DOMAIN g /\ g[<<st.on, lat[st.on]>>] \notin {ERR, GARBLED}
    [] st.op \in {"create_branch", "clone", "create_tag", "update_tag"} ->
         <<st.src, st.mv>> \in DOMAIN g /\ g[<<st.src, st.mv>>] \notin {ERR, GARBLED}
         /\ (st.op = "create_branch" => st.name \notin liveB)
    [] st.op = "delete_branch" -> st.name \in liveB /\ Intact(st.name)
    [] st.op = "delete_tag" -> st.tag \in DOMAIN tags
    [] OTHER -> FALSE

\* keys of g that the step removes by design (the subject's own operations)
Dropped(st) ==
  CASE st.op = "delete_branch" -> LocKeys(g, st.name)
    [] st.op = "cleanup" ->
         {k \in LocKeys(g, st.on) : k[2] # lat[st.on] /\ ~(\E t \in DOMAIN tags : tags[t] = k)}
    [] OTHER -> {}
\* key the step creates, with its expected content
NewKey(st) ==
  CASE st.op = "init" -> <<MAIN, 1>>
    [] st.op \in {"append", "delete"} -> <<st.on, lat[st.on] + 1>>
    [] st.op = "create_branch" -> <<st.name, st.mv>>
    [] st.op = "clone" -> <<st.clone, st.mv>>
    [] OTHER -> <<>>
NewVal(st) ==
  CASE st.op = "init" -> {1, 2, 3}
    [] st.op = "append" -> g[<<st.on, lat[st.on]>>] \cup {st.row}
    [] st.op = "delete" -> g[<<st.on, lat[st.on]>>] \ {st.row}
    [] st.op \in {"create_branch", "clone"} -> g[<<st.src, st.mv>>]
    [] OTHER -> {}

DeleteClass(n, remaining) ==
  LET d == CleanupDirAsBuilt(n, remaining) IN
  IF d = <<>>
  THEN (IF \E c \in remaining : IsSegPrefix(Segs(n), Segs(c)) THEN "kept-because-sub-branch-exists"
        ELSE "kept-because-name-is-char-prefix-of-sibling")
  ELSE IF ~IsSegPrefix(d, BranchDir(n)) THEN "char-prefix-cut-mid-segment" ELSE "other"
CharRelated(n, remaining) == \E c \in remaining : CommonLen(n, c) > 0

IsolationClass(st, subj, k) ==
  LET where == IF st.op = "cleanup"
               THEN (IF subj = MAIN THEN "cleanup-on-main" ELSE IF IsCloneLoc(subj) THEN "cleanup-on-clone" ELSE "cleanup-on-branch")
               ELSE st.op
      who == IF k[1] \in DOMAIN anc /\ subj \in anc[k[1]]
             THEN (IF IsCloneLoc(k[1]) THEN "dependent-clone" ELSE "dependent-branch") ELSE "unrelated-location"
  IN <<where, who>>

(***************************************************************************)
(* hist mode: one step                                                     *)
(***************************************************************************)
AddBad(es) == IF es = {} THEN bad ELSE IF Len(bad) < 5000 THEN bad \o SetToSeq(es) ELSE bad

HistStep(e) ==
  LET st == e.step
      op == st.op
      obs == e.obs
      subj == SubjOf(st)
      ok == e.res = "ok"
      T2 == TreeOf(obs)
      ent(inv, cls) == <<l, e.scn, e.i, op, inv, cls>>
  IN
  IF aborted \/ ~Applicable(st) \/ obs.main_res # "ok"
  THEN /\ aborted' = TRUE
       /\ cnt' = [cnt EXCEPT !["skipped_steps"] = @ + 1]
       /\ bad' = IF ~aborted /\ obs.main_res # "ok" THEN AddBad({ent("BranchIsolation", <<op, "main-unreadable">>)}) ELSE bad
       /\ UNCHANGED <<nmeta, g, lat, liveB, parB, anc, tags, dirty, tree, scn>>
  ELSE
  LET dropped == Dropped(st)
      kept == DOMAIN g \ dropped
      nk == NewKey(st)
      \* 1. isolation / history of everything the model keeps
      changedKeys == {k \in kept : RD(obs, k[1], k[2]) # g[k]}
      \* 2. storage frame
      \* (storage that an earlier delete left behind belongs to nobody: removing it later is not judged)
      foreign == {k \in Changed(tree, T2) : OwnerOf(k[1]) \notin AllowedOwners(st) /\ OwnerOf(k[1]) \notin {OwnerKey(d) : d \in dirty}}
      leftover == IF op = "delete_branch" THEN {k \in DOMAIN T2 : OwnerOf(k[1]) = OwnerKey(st.name)} ELSE {}
      frameBad == IF foreign = {} \/ (op = "create_branch" /\ st.name \in dirty /\ ~ok) THEN {}
                  ELSE IF op = "delete_branch" THEN {ent("DeleteRemovesOnlyOwn", <<"other-branch-storage-removed", DeleteClass(st.name, liveB \ {st.name})>>)}
                  ELSE {ent("OnlyOwnStorageTouched", <<op, "">>)}
      leftBad == IF leftover = {} \/ ~ok THEN {} ELSE {ent("DeleteRemovesAllOwn", <<"storage-left-behind", DeleteClass(st.name, liveB \ {st.name})>>)}
      \* docs/src/format/table/layout.md (Shallow Clone, step 5): "Source dataset ... can be garbage collected
      \* independently" -- a shallow clone that loses inherited files to a cleanup of its source is documented
      \* behaviour, and the property does not list a clone as a protected reader: counted, not reported.
      exempt == {k \in changedKeys : op = "cleanup" /\ IsCloneLoc(k[1]) /\ k[1] \in DOMAIN anc /\ subj \in anc[k[1]]}
      isoBad == IF frameBad # {} /\ op = "delete_branch" THEN {}      \* reported once, as DeleteRemovesOnlyOwn
                ELSE {ent(IF k[1] = subj THEN "OwnHistoryKept" ELSE "BranchIsolation", IsolationClass(st, subj, k)) : k \in changedKeys \ exempt}
      \* 3. the step itself
      dirtyCreate == op = "create_branch" /\ st.name \in dirty
      newOK == nk = <<>> \/ RD(obs, nk[1], nk[2]) = NewVal(st)
      viaOther == "via" \in DOMAIN st /\ "src" \in DOMAIN st /\ st.via # st.src
      opBad == IF dirtyCreate /\ ~ok THEN {}
               ELSE IF ~ok /\ op = "delete_branch"
               THEN {ent("DeleteBranchSucceeds", <<"failed-after-removing-the-branch-entry", DeleteClass(st.name, liveB \ {st.name})>>)}
               ELSE IF ~ok THEN {ent(IF op \in {"create_branch", "clone"} /\ viaOther THEN "RefResolves" ELSE "OpSucceeds",
                                     <<IF viaOther THEN "via-other-handle" ELSE "via-source-handle", "">>)}
               ELSE IF ~newOK THEN {ent(IF op \in {"create_branch", "clone"} THEN "RefResolves" ELSE "WriteApplies",
                                        <<IF viaOther THEN "via-other-handle" ELSE "via-source-handle", "">>)}
               ELSE {}
      stop == ~ok \/ ~newOK
      \* 4. model state after the step
      liveB2 == CASE op = "create_branch" /\ ok -> liveB \cup {st.name}
                  [] op = "delete_branch" /\ ok -> liveB \ {st.name}
                  [] OTHER -> liveB
      parB2 == IF op = "create_branch" /\ ok THEN (st.name :> <<st.src, st.mv>>) @@ parB ELSE parB
      tags2 == CASE op \in {"create_tag", "update_tag"} /\ ok -> (st.tag :> <<st.src, st.mv>>) @@ tags
                 [] op = "delete_tag" /\ ok -> RestrictTo(tags, DOMAIN tags \ {st.tag})
                 [] OTHER -> tags
      listBad == IF stop THEN {}
                 ELSE (IF ObsBranches(obs) = {<<n, parB2[n][1], parB2[n][2]>> : n \in liveB2} /\ obs.blist_res = "ok" THEN {}
                       ELSE {ent("RefListsMatch", <<"branches", "">>)})
                      \cup (IF {x[1] : x \in ObsTags(obs)} = DOMAIN tags2 /\ obs.tlist_res = "ok" THEN {}
                            ELSE {ent("RefListsMatch", <<"tags", "">>)})
      \* 5. tags resolve
      tagBad == IF stop THEN {}
                ELSE UNION {LET want == tags2[t]
                                mine == {x \in ObsTags(obs) : x[1] = t} IN
                            IF mine = {} THEN {}       \* reported by RefListsMatch
                            ELSE IF mine # {<<t, want[1], want[2]>>} THEN {ent("TagResolves", <<"names-another-version", "">>)}
                            ELSE IF want \in changedKeys THEN {}      \* reported by BranchIsolation
                            ELSE LET r == TagRead(obs, t) IN
                                 \* (a version damaged by an earlier, reported violation stays unreadable through the tag too)
                                 IF want \in kept /\ ((g[want] = ERR /\ r.res # "ok")
                                                       \/ (r.res = "ok" /\ r.mv = want[2] /\ r.mbranch = want[1] /\ RowSet(r.rows) = g[want]))
                                 THEN {} ELSE {ent("TagResolves", <<"reads-another-version", "">>)}
                            : t \in DOMAIN tags2}
      \* ghost after the step, re-synchronised with the observation
      g1 == [k \in kept |-> IF RD(obs, k[1], k[2]) = MISSING THEN g[k] ELSE RD(obs, k[1], k[2])]
      g2 == IF nk # <<>> /\ ok /\ newOK THEN (nk :> NewVal(st)) @@ g1 ELSE g1
      lat2 == CASE op \in {"init", "append", "delete", "create_branch", "clone"} /\ ok /\ newOK -> (nk[1] :> nk[2]) @@ lat
                [] op = "delete_branch" /\ ok -> RestrictTo(lat, DOMAIN lat \ {st.name})
                [] OTHER -> lat
      anc2 == IF op \in {"create_branch", "clone"} /\ ok
              THEN (subj :> ({st.src} \cup (IF st.src \in DOMAIN anc THEN anc[st.src] ELSE {}))) @@ anc ELSE anc
      \* 6. the latest version of every intact location is the model's (a step must not move another location's head)
      moved == IF stop THEN {}
               ELSE {y \in DOMAIN lat2 : <<y, lat2[y]>> \in DOMAIN g2 /\ g2[<<y, lat2[y]>>] \notin {ERR, GARBLED, MISSING} /\ ObsLatest(obs, y) # lat2[y]}
      latBad == {ent(IF x = subj THEN "WriteApplies" ELSE "BranchIsolation", <<op, "latest-version-moved">>) : x \in moved}
      allBad == frameBad \cup leftBad \cup isoBad \cup opBad \cup listBad \cup tagBad \cup latBad
  IN
  /\ bad' = AddBad(allBad)
  /\ g' = g2 /\ lat' = [x \in DOMAIN lat2 |-> IF x \in moved THEN ObsLatest(obs, x) ELSE lat2[x]] /\ liveB' = liveB2 /\ parB' = parB2 /\ anc' = anc2 /\ tags' = tags2
  /\ dirty' = {d \in dirty \cup (IF op = "delete_branch" THEN {st.name} ELSE {}) :
                  d \notin liveB2 /\ \E k \in DOMAIN T2 : OwnerOf(k[1]) = OwnerKey(d)}
  /\ tree' = T2
  /\ aborted' = stop
  /\ cnt' = [cnt EXCEPT ![op] = @ + 1,
                        !["ok_steps"] = @ + (IF ok THEN 1 ELSE 0),
                        !["isolation_checks"] = @ + Cardinality(kept),
                        !["tag_checks"] = @ + Cardinality(DOMAIN tags2),
                        !["info_clone_lost_files_to_source_cleanup"] = @ + Cardinality(exempt),
                        !["frame_checks"] = @ + Cardinality(DOMAIN tree \cup DOMAIN T2),
                        !["delete_with_related_names"] = @ + (IF op = "delete_branch" /\ CharRelated(st.name, liveB \ {st.name}) THEN 1 ELSE 0),
                        !["via_other_handle"] = @ + (IF viaOther /\ op \in {"create_branch", "clone"} THEN 1 ELSE 0)]
  /\ UNCHANGED <<nmeta, scn>>

HistNext ==
  LET e == Rec[l] IN
  IF e.ev = "reset"
  THEN /\ g' = <<>> /\ lat' = <<>> /\ liveB' = {} /\ parB' = <<>> /\ anc' = <<>> /\ tags' = <<>> /\ dirty' = {}
       /\ tree' = <<>> /\ aborted' = FALSE /\ scn' = e.scn
       /\ cnt' = [cnt EXCEPT !["scenarios"] = @ + 1]
       /\ UNCHANGED <<bad, nmeta>>
  ELSE HistStep(e)

Counters == {"names", "branch_ok", "tag_ok", "branch_valid", "tag_valid",
             "scenarios", "skipped_steps", "ok_steps", "isolation_checks", "tag_checks", "frame_checks",
             "delete_with_related_names", "via_other_handle", "info_clone_lost_files_to_source_cleanup",
             "init", "append", "delete", "cleanup", "create_branch", "delete_branch", "create_tag", "update_tag",
             "delete_tag", "clone"}
Init == /\ l = 1 /\ bad = <<>> /\ cnt = [c \in Counters |-> 0]
        /\ nmeta = [maxlen |-> 0, shard |-> 0, shards |-> 1, seen |-> 0]
        /\ g = <<>> /\ lat = <<>> /\ liveB = {} /\ parB = <<>> /\ anc = <<>> /\ tags = <<>> /\ dirty = {}
        /\ tree = <<>> /\ aborted = FALSE /\ scn = 0
Next == /\ l <= N /\ l' = l + 1
        /\ IF Mode = "names" THEN NamesNext ELSE HistNext
TraceSpec == Init /\ [][Next]_tvars

Report == (l = N + 1) =>
  PrintT(<<"REPORT", ToJson([events |-> N, bad |-> bad, counts |-> cnt, mode |-> Mode,
                               universe |-> UniverseSize(nmeta.maxlen), seen |-> nmeta.seen,
                               shard |-> nmeta.shard, shards |-> nmeta.shards])>>)
TraceAccepted == TLCGet("stats").diameter = N + 1
=============================================================================
