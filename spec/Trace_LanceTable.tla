--------------------------- MODULE Trace_LanceTable ---------------------------
(* Validates recorded executions of the real lance table API
   (harness/src/bin/vh_table.rs) against the table semantics of LanceTable.tla.

   Each event carries the operation, its result class and the *projected state*
   of the latest version (fragments, deletion sets, live rows with cells, row
   id, created/updated version, counters).  The validator keeps the observed
   versions plus the model's ghost state (serial table, issued row ids, truth
   of creation/update versions, per-version touched keys) and judges every
   step with the relation the operation must satisfy and with the invariants
   of the properties (names below are the finding signatures):

     FailedHasNoEffect SerialEquivalence              C03
     NoLostUpdate NoDoubleImage                       C04
     WellFormed                                       C05
     VersionsImmutable (reread events)                C06
     RestoreEqualsOld RowIdsNeverReused               C07
     ScanEqualsModel (append/overwrite order)         C11
     RewritePreservesContents                         C13
     VersionColumnsCorrect                            C17
     RowIdStable RowIdUnique                          C18

   A failing judgement is recorded in `bad` and the ghost state is
   re-synchronised from the observation, so one TLC run classifies a whole
   batch of scenarios.                                                      *)
EXTENDS Naturals, Integers, Sequences, FiniteSets, TLC, Json, IOUtils, SequencesExt, FiniteSetsExt, Functions, Sql3VL

Rec == ndJsonDeserialize(IOEnv.TRACE)
N   == Len(Rec)
VARIABLES l,        \* next event
          obs,      \* version number -> observed projection (function on a set of versions)
          hvT,      \* handle -> version
          issued,   \* stable row ids seen so far
          truth,    \* key -> [cre, upd]  (model ground truth for the latest version)
          truthAt,  \* version -> truth at that version
          serial,   \* expected logical table: set of [id, val]
          touched,  \* version -> keys deleted/updated by that version's transaction
          stable,   \* scenario uses stable row ids
          scn,      \* current scenario id
          bad,      \* recorded violations
          cnt       \* counters for vacuity checks
tvars == <<l, obs, hvT, issued, truth, truthAt, serial, touched, stable, scn, bad, cnt>>

(***************************************************************************)
(* Reading a projection                                                    *)
(***************************************************************************)
SeqToSet(s) == {s[i] : i \in 1..Len(s)}
\* all live rows of a projection as flat records
PRows(P) == UNION {{[fid |-> P.frags[i].id, off |-> r.off, id |-> r.c.id, val |-> r.c.val,
                     rid |-> r.rid, cre |-> r.cre, upd |-> r.upd] : r \in SeqToSet(P.frags[i].rows)}
                   : i \in 1..Len(P.frags)}
PCells0(P) == UNION {{r.c : r \in SeqToSet(P.frags[i].rows)} : i \in 1..Len(P.frags)}
PLogical(P) == {[id |-> r.id, val |-> r.val] : r \in PRows(P)}
PIds(P) == {r.id : r \in PRows(P)}
PRowOf(P, id) == CHOOSE r \in PRows(P) : r.id = id
PFragIds(P) == {P.frags[i].id : i \in 1..Len(P.frags)}
PFrag(P, fid) == P.frags[CHOOSE i \in 1..Len(P.frags) : P.frags[i].id = fid]
\* ids in scan order
PScanIds(P) == LET RECURSIVE go(_)
                   go(i) == IF i > Len(P.frags) THEN <<>>
                            ELSE [j \in 1..Len(P.frags[i].rows) |-> P.frags[i].rows[j].c.id] \o go(i+1)
               IN go(1)
IsErr(P) == "error" \in DOMAIN P

(***************************************************************************)
(* Invariants on one observed version                                      *)
(***************************************************************************)
WellFormedP(P) ==
  /\ \A i \in 1..(Len(P.frags)-1) : P.frags[i].id < P.frags[i+1].id            \* unique and ordered
  /\ \A i \in 1..Len(P.frags) :
       LET f == P.frags[i] IN
       /\ f.id <= P.max_frag
       /\ f.phys >= 0
       /\ \A d \in SeqToSet(f.del) : d >= 0 /\ d < f.phys
       /\ Len(f.rows) = f.phys - Cardinality(SeqToSet(f.del))                  \* live rows = physical - deleted
       /\ \A r \in SeqToSet(f.rows) : r.off >= 0 /\ r.off < f.phys /\ r.off \notin SeqToSet(f.del)
       /\ \A j \in 1..(Len(f.rows)-1) : f.rows[j].off < f.rows[j+1].off        \* scan order = physical order
       /\ f.ndel_meta \in {-1, Cardinality(SeqToSet(f.del))}                   \* recorded count, when present
       /\ Len(f.rows) > 0                                                      \* no fully deleted fragment is kept
  /\ P.orphan = <<>>
  /\ P.count = Cardinality(PRows(P))
  /\ \A i, j \in 1..Len(P.schema) : i # j => P.schema[i].id # P.schema[j].id  \* field ids unique
  /\ P.stable => \A r \in PRows(P) : r.rid >= 0 /\ r.rid < P.next_row_id
  /\ ~P.stable => \A r \in PRows(P) : r.rid = -1                               \* address-style ids = address
RowIdUniqueP(P) == P.stable => \A r, s \in PRows(P) : r.rid = s.rid => r = s
NoDoubleImageP(P) == \A r, s \in PRows(P) : r.id = s.id => r = s

(***************************************************************************)
(* Per-operation relations (res = "ok")                                    *)
(***************************************************************************)
StepRows(st) == [i \in 1..Len(st.rows) |-> [id |-> st.rows[i][1], val |-> st.rows[i][2]]]
RowsSet(rs) == {rs[i] : i \in 1..Len(rs)}

\* fragments of L that survive in P are physically unchanged except for a larger deletion set;
\* rows that stay live keep their cells, row id and version columns
OldFragsPreserved(L, P, mayDrop) ==
  /\ \A fid \in PFragIds(L) \cap PFragIds(P) :
       LET a == PFrag(L, fid)
           b == PFrag(P, fid) IN
       /\ a.phys = b.phys
       /\ SeqToSet(a.del) \subseteq SeqToSet(b.del)
       /\ SeqToSet(b.rows) \subseteq SeqToSet(a.rows)
  /\ \A fid \in PFragIds(L) \ PFragIds(P) : mayDrop
NewFragIds(L, P) == PFragIds(P) \ PFragIds(L)

\* rows that the operation must not have touched are exactly as before (same place, same everything)
UntouchedSame(L, P, ids) == \A r \in PRows(L) : r.id \notin ids => r \in PRows(P)

AppendRel(L, P, st) ==
  LET rows == StepRows(st)
      nf == NewFragIds(L, P) IN
  /\ P.v = L.v + 1
  /\ PRows(L) \subseteq PRows(P)
  /\ \A fid \in nf : fid > L.max_frag
  /\ PFragIds(L) \subseteq PFragIds(P)
  /\ SubSeq(PScanIds(P), 1, Len(PScanIds(L))) = PScanIds(L)                      \* appended at the end ...
  /\ SubSeq(PScanIds(P), Len(PScanIds(L)) + 1, Len(PScanIds(P))) = [i \in 1..Len(rows) |-> rows[i].id]  \* ... in insertion order
  /\ \A i \in 1..Len(rows) : \E r \in PRows(P) : r.id = rows[i].id /\ r.val = rows[i].val /\ r.fid \in nf
  /\ P.stable => /\ P.next_row_id = L.next_row_id + Len(rows)
                 /\ {r.rid : r \in {x \in PRows(P) : x.fid \in nf}} = L.next_row_id..(L.next_row_id + Len(rows) - 1)

OverwriteRel(L, P, st) ==
  LET rows == StepRows(st) IN
  /\ P.v = L.v + 1
  /\ PScanIds(P) = [i \in 1..Len(rows) |-> rows[i].id]
  /\ PLogical(P) = RowsSet(rows)
  /\ P.stable => /\ P.next_row_id >= L.next_row_id + Len(rows)
                 /\ \A r \in PRows(P) : r.rid >= L.next_row_id

\* delete / update / upsert: D = keys whose rows are removed, NewImg = key -> new val (re-inserted rows)
DmlRel(L, P, D, NewKeys) ==
  /\ P.v = L.v + 1
  /\ OldFragsPreserved(L, P, TRUE)
  /\ UntouchedSame(L, P, D \cup NewKeys)
  /\ \A fid \in NewFragIds(L, P) : fid > L.max_frag
  /\ \A r \in PRows(P) : r.fid \in NewFragIds(L, P) => r.id \in NewKeys        \* new fragments hold only new images
  /\ \A r \in PRows(P) : (r.id \in NewKeys) => r.fid \in NewFragIds(L, P)     \* and all of them
  /\ PIds(P) = (PIds(L) \ D) \cup NewKeys

(***************************************************************************)
(* The logical effect of a DML step, computed on the read version R with   *)
(* the reference semantics (Sql3VL): rows removed, rows (re)inserted.      *)
(***************************************************************************)
CellOf(P, i) == CHOOSE c \in PCells0(P) : c.id = i
SrcIds(st) == {st.src[i][1] : i \in 1..Len(st.src)}
SrcVal(st, i) == st.src[CHOOSE k \in 1..Len(st.src) : st.src[k][1] = i][2]
Effect(st, R) ==
  LET op == st.op
      cells == PCells0(R)
      ids == {c.id : c \in cells}
  IN
  CASE op = "delete" ->
         [del |-> {c.id : c \in {x \in cells : Holds(st.pred, x)}}, new |-> {}, val |-> <<>>, mustFail |-> FALSE,
          unk |-> {c.id : c \in {x \in cells : Eval(st.pred, x) = "N"}}]
    [] op = "update" ->
         LET S == {c.id : c \in {x \in cells : Holds(st.pred, x)}} IN
         [del |-> S, new |-> S, val |-> [i \in S |-> EvalExpr(st.setexpr, CellOf(R, i))], mustFail |-> FALSE,
          unk |-> {c.id : c \in {x \in cells : Eval(st.pred, x) = "N"}}]
    [] op = "merge_insert" /\ "in_place" \in DOMAIN st ->
         \* source with only some of the columns: matched rows are rewritten in place, nothing moves
         [del |-> {}, new |-> {}, val |-> <<>>, mustFail |-> FALSE, unk |-> {},
          inplace |-> [i \in SrcIds(st) \cap ids |-> SrcVal(st, i)]]
    [] op = "merge_insert" ->
         LET m == SrcIds(st) \cap ids
             matched == IF "matched" \in DOMAIN st THEN st.matched ELSE "update_all"
             notm == IF "not_matched" \in DOMAIN st THEN st.not_matched ELSE "insert_all"
             nmbs == IF "nmbs" \in DOMAIN st THEN st.nmbs ELSE "keep"
             upd == IF matched = "update_all" THEN m ELSE {}
             ins == IF notm = "insert_all" THEN SrcIds(st) \ ids ELSE {}
             gone == IF nmbs = "delete" THEN ids \ SrcIds(st) ELSE {}
             dup == \E a, b \in 1..Len(st.src) : a # b /\ st.src[a][1] = st.src[b][1] /\ st.src[a][1] \in m
         IN [del |-> upd \cup gone, new |-> upd \cup ins, val |-> [i \in upd \cup ins |-> SrcVal(st, i)],
             mustFail |-> (matched = "fail" /\ m # {}) \/ (matched = "update_all" /\ dup), unk |-> {}]
    [] OTHER -> [del |-> {}, new |-> {}, val |-> <<>>, mustFail |-> FALSE, unk |-> {}]

\* Versions that were never projected (the fragment-id reservation commit that precedes a
\* compaction's rewrite) have the contents of the closest earlier observed version.
AtOrBefore(f, v) == f[Max({k \in DOMAIN f : k <= v})]
Known(f, v) == \E k \in DOMAIN f : k <= v

(***************************************************************************)
(* The judgement of one step: a set of violated invariant names            *)
(***************************************************************************)
Judge(e) ==
  LET st == e.step
      op == st.op
      P  == e.latest
      h  == IF "h" \in DOMAIN st THEN st.h ELSE "main"
      Lv == Max(DOMAIN obs)
      L  == obs[Lv]
      rv == IF h \in DOMAIN hvT THEN hvT[h] ELSE 0
      R  == IF rv \in DOMAIN obs THEN obs[rv] ELSE L
      ok == e.res = "ok"
      isWrite == op \in {"append", "commit", "overwrite", "delete", "update", "merge_insert", "compact", "restore",
                          "create_index", "optimize_indices"}
      \* keys the operation selected at its read version
      eff == Effect(st, R)
      sel == eff.del \cup (IF "inplace" \in DOMAIN eff THEN DOMAIN eff.inplace ELSE {})
      between == UNION {touched[k] : k \in {x \in DOMAIN touched : x > rv /\ x <= Lv}}
  IN
  IF IsErr(P) THEN {"LatestUnreadable"}
  ELSE
  (IF ~WellFormedP(P) THEN {"WellFormed"} ELSE {})
  \cup (IF ~RowIdUniqueP(P) THEN {"RowIdUnique"} ELSE {})
  \cup (IF ~NoDoubleImageP(P) THEN {"NoDoubleImage"} ELSE {})
  \cup (IF P.v < Lv THEN {"VersionsMonotone"} ELSE {})
  \cup
  (IF e.res = "panic" THEN {"Panic"}
   \* (a compaction is two commits: the reservation of fragment ids, then the rewrite.  When the rewrite loses a
   \*  conflict the reservation stays published: one more version with the same fragments and rows)
   ELSE IF ~ok /\ op = "compact" THEN (IF P.frags = L.frags /\ P.v \in {Lv, Lv + 1} THEN {} ELSE {"FailedHasNoEffect"})
   ELSE IF ~ok \/ ~isWrite THEN (IF P # L /\ op # "reread" THEN {"FailedHasNoEffect"} ELSE {})
   ELSE
   CASE op \in {"append", "commit"} -> IF AppendRel(L, P, st) THEN {} ELSE {"ScanEqualsModel"}
     [] op = "overwrite" -> IF OverwriteRel(L, P, st) THEN {} ELSE {"ScanEqualsModel"}
     [] op \in {"delete", "update", "merge_insert"} ->
          \* (the comparison with the SQL reference semantics, C12, is JudgeDml below)
          (IF sel \cap between # {} THEN {"NoLostUpdate"} ELSE {})
          \cup (LET dObs == PIds(L) \ {r.id : r \in {x \in PRows(P) : x.fid \in PFragIds(L)}}
                    nObs == {r.id : r \in {x \in PRows(P) : x.fid \notin PFragIds(L)}}
                IN IF "inplace" \in DOMAIN eff
                   THEN \* rows keep fragment, offset, row id and creation version; only the value (and the
                        \* last-updated version) of the selected rows changes
                        (IF /\ P.v = Lv + 1
                            /\ PFragIds(P) = PFragIds(L)
                            /\ \A fid \in PFragIds(L) : PFrag(P, fid).phys = PFrag(L, fid).phys /\ PFrag(P, fid).del = PFrag(L, fid).del
                            /\ {[fid |-> r.fid, off |-> r.off, id |-> r.id, rid |-> r.rid, cre |-> r.cre] : r \in PRows(P)}
                                 = {[fid |-> r.fid, off |-> r.off, id |-> r.id, rid |-> r.rid, cre |-> r.cre] : r \in PRows(L)}
                            /\ \A r \in PRows(L) : r.id \notin DOMAIN eff.inplace => r \in PRows(P)
                            /\ \A r \in PRows(P) : r.id \in DOMAIN eff.inplace => r.val = eff.inplace[r.id]
                         THEN {} ELSE {"SerialEquivalence"})
                   ELSE IF dObs = {} /\ nObs = {} THEN (IF PRows(P) = PRows(L) THEN {} ELSE {"SerialEquivalence"})
                   ELSE IF DmlRel(L, P, dObs, nObs) THEN {} ELSE {"SerialEquivalence"})
          \cup (IF P.stable /\ (\E r \in PRows(L), q \in PRows(P) : r.id = q.id /\ r.rid # q.rid) THEN {"RowIdStable"} ELSE {})
     [] op = "compact" ->
          (IF P.v \in {Lv, Lv + 1, Lv + 2} THEN {} ELSE {"OneVersionPerCommit"})
          \* (without stable row ids rid / cre / upd are constant markers, so this compares keys and values)
          \cup (IF {[id |-> r.id, val |-> r.val, rid |-> r.rid, cre |-> r.cre, upd |-> r.upd] : r \in PRows(P)}
                   = {[id |-> r.id, val |-> r.val, rid |-> r.rid, cre |-> r.cre, upd |-> r.upd] : r \in PRows(L)}
                   /\ Cardinality(PRows(P)) = Cardinality(PRows(L))
                THEN {} ELSE {"RewritePreservesContents"})
          \* stable row ids survive a rewrite
          \cup (IF P.stable /\ (\E r \in PRows(L), q \in PRows(P) : r.id = q.id /\ r.rid # q.rid) THEN {"RowIdStable"} ELSE {})
     [] op \in {"create_index", "optimize_indices"} ->
          \* index maintenance never changes rows or fragments; index metadata names schema fields only
          (IF P.frags = L.frags /\ P.v \in {Lv, Lv + 1} THEN {} ELSE {"SerialEquivalence"})
          \cup (IF \A i \in 1..Len(P.indices) : \A f \in SeqToSet(P.indices[i].fields) :
                       \E j \in 1..Len(P.schema) : P.schema[j].id = f
                THEN {} ELSE {"WellFormed"})
     [] op = "restore" ->
          IF Known(obs, st.v) /\ st.v <= Lv
          THEN (IF P.v = Lv + 1 /\ P.frags = AtOrBefore(obs, st.v).frags THEN {} ELSE {"RestoreEqualsOld"})
          ELSE {}
     [] OTHER -> {})

(***************************************************************************)
(* Ghost updates                                                           *)
(***************************************************************************)
\* expected logical table after the step (serial replay of the effect computed at the read version)
SerialAfter(e, R) ==
  LET st == e.step
      op == st.op
      eff == Effect(st, R) IN
  IF e.res # "ok" THEN serial
  ELSE CASE op \in {"create", "overwrite"} -> RowsSet(StepRows(st))
         [] op \in {"append", "commit"} -> serial \cup RowsSet(StepRows(st))
         [] op = "merge_insert" /\ "in_place" \in DOMAIN st ->
              {r \in serial : r.id \notin DOMAIN eff.inplace}
                \cup {[id |-> i, val |-> eff.inplace[i]] : i \in (DOMAIN eff.inplace) \cap {r.id : r \in serial}}
         [] op \in {"delete", "update", "merge_insert"} ->
              {r \in serial : r.id \notin eff.del}
                \cup {[id |-> i, val |-> eff.val[i]] : i \in {x \in eff.new : x \notin eff.del \/ x \in {r.id : r \in serial}}}
         [] op = "restore" -> IF Known(obs, st.v) THEN PLogical(AtOrBefore(obs, st.v)) ELSE serial
         [] OTHER -> serial

\* ground truth of the version columns after the step
TruthAfter(e, R, P) ==
  LET st == e.step
      op == st.op
      nv == P.v
      eff == Effect(st, R) IN
  IF e.res # "ok" THEN truth
  ELSE CASE op \in {"create", "overwrite"} -> [i \in PIds(P) |-> [cre |-> nv, upd |-> nv]]
         [] op \in {"append", "commit"} -> [i \in PIds(P) |-> IF i \in DOMAIN truth THEN truth[i] ELSE [cre |-> nv, upd |-> nv]]
         [] op = "merge_insert" /\ "in_place" \in DOMAIN st ->
              [i \in DOMAIN truth |-> IF i \in DOMAIN eff.inplace THEN [truth[i] EXCEPT !.upd = nv] ELSE truth[i]]
         [] op \in {"delete", "update", "merge_insert"} ->
              [i \in ((DOMAIN truth) \ (eff.del \ eff.new)) \cup eff.new |->
                 IF i \in eff.new
                 THEN (IF i \in eff.del /\ i \in DOMAIN truth THEN [truth[i] EXCEPT !.upd = nv] ELSE [cre |-> nv, upd |-> nv])
                 ELSE truth[i]]
         [] op = "restore" -> IF Known(truthAt, st.v) THEN AtOrBefore(truthAt, st.v) ELSE truth
         [] OTHER -> truth

TouchedBy(e, R) ==
  IF e.res # "ok" THEN {}
  ELSE IF e.step.op \in {"delete", "update", "merge_insert"}
       THEN LET eff == Effect(e.step, R) IN eff.del \cup (IF "inplace" \in DOMAIN eff THEN DOMAIN eff.inplace ELSE {})
       ELSE {}

\* invariants that need the ghosts (evaluated on the post-state)
GhostJudge(e, P, serial2, truth2, newIssued) ==
  (IF PLogical(P) # serial2 THEN {"SerialEquivalence"} ELSE {})
  \cup (IF P.stable /\ (\E r \in PRows(P) : r.id \notin DOMAIN truth2 \/ r.cre # truth2[r.id].cre \/ r.upd # truth2[r.id].upd)
        THEN {"VersionColumnsCorrect"} ELSE {})
  \cup (IF P.stable /\ newIssued \cap issued # {} THEN {"RowIdsNeverReused"} ELSE {})

(***************************************************************************)
(* Queries (C16, C19) and random access (C15): judged against Sql3VL on    *)
(* the latest observed version                                             *)
(***************************************************************************)
PCells(P) == UNION {{r.c : r \in SeqToSet(P.frags[i].rows)} : i \in 1..Len(P.frags)}
PScanCells(P) == LET RECURSIVE go(_)
                     go(i) == IF i > Len(P.frags) THEN <<>>
                              ELSE [j \in 1..Len(P.frags[i].rows) |-> P.frags[i].rows[j].c] \o go(i+1)
                 IN go(1)
RECURSIVE HasNot(_)
HasNot(p) == CASE p[1] = "not" -> TRUE
               [] p[1] \in {"and", "or"} -> HasNot(p[2]) \/ HasNot(p[3])
               [] p[1] = "cmp" -> p[3] = "<>"
               [] OTHER -> FALSE
KeyLE(a, b, asc, nullsFirst) ==      \* a may precede b in the requested order
  IF a = NULL /\ b = NULL THEN TRUE
  ELSE IF a = NULL THEN nullsFirst
  ELSE IF b = NULL THEN ~nullsFirst
  ELSE IF asc THEN a <= b ELSE a >= b
Min2(a, b) == IF a < b THEN a ELSE b
Max2(a, b) == IF a > b THEN a ELSE b

\* judgement of one variant's result; returns a set of <<invariant, class>>
JudgeVariant(st, L, q, indexed) ==
  LET cells == PCells(L)
      E == {c.id : c \in {x \in cells : Holds(st.pred, x)}}
      U == {c.id : c \in {x \in cells : Eval(st.pred, x) = "N"}}
      ids == q.ids
      got == SeqToSet(ids)
      hasOrder == "order" \in DOMAIN st
      hasLimit == "limit" \in DOMAIN st \/ "offset" \in DOMAIN st
      lim == IF "limit" \in DOMAIN st THEN st.limit ELSE 1000000
      off == IF "offset" \in DOMAIN st THEN st.offset ELSE 0
      usesIndex == indexed /\ ~("use_scalar_index" \in DOMAIN q.variant /\ ~q.variant.use_scalar_index)
      inv == IF usesIndex THEN "IndexedScanEqualsEval" ELSE "ScanEqualsEval"
      extra == got \ E
      missing == E \ got
      cls == IF missing = {} /\ extra # {} /\ extra \subseteq U /\ HasNot(st.pred) THEN "unknown-rows-kept-under-negation"
             ELSE IF missing # {} /\ extra = {} THEN "rows-missing"
             ELSE IF extra # {} /\ missing = {} THEN "extra-rows"
             ELSE "wrong-rows"
      expectedLen == Max2(0, Min2(lim, Cardinality(E) - off))
  IN
  IF q.res # "ok" THEN {<<inv, "query-failed">>}
  ELSE
  (IF Len(ids) # Cardinality(got) THEN {<<inv, "duplicate-rows">>} ELSE {})
  \cup (IF ~hasLimit /\ got # E THEN {<<inv, cls>>} ELSE {})
  \cup (IF hasLimit /\ ~(got \subseteq E) THEN {<<inv, cls>>} ELSE {})
  \cup (IF hasLimit /\ got \subseteq E /\ Len(ids) # expectedLen THEN {<<inv, "limit-offset-count">>} ELSE {})
  \cup (IF hasOrder /\ got \subseteq E
        THEN LET asc == st.order.asc
                 nf == st.order.nulls_first
                 keyOf(i) == (CHOOSE c \in cells : c.id = i)[st.order.col]
                 allKeys == SortSeq(SetToSeq(E), LAMBDA a, b : KeyLE(keyOf(a), keyOf(b), asc, nf) /\ ~(keyOf(a) = keyOf(b)))
                 want == [i \in 1..expectedLen |-> keyOf(allKeys[off + i])]
             IN (IF Len(q.keys) = Len(ids) /\ (\A i \in 1..Len(ids) : q.keys[i] = keyOf(ids[i])) THEN {} ELSE {<<inv, "order-key-mismatch">>})
                \cup (IF Len(ids) = expectedLen /\ [i \in 1..Len(ids) |-> keyOf(ids[i])] = want THEN {} ELSE {<<inv, "order-by">>})
        ELSE {})

JudgeQuery(e, L, indexed) ==
  IF "results" \notin DOMAIN e.extra THEN {<<IF indexed THEN "IndexedScanEqualsEval" ELSE "ScanEqualsEval", "query-failed">>}
  ELSE
  LET rs == e.extra.results
      per == UNION {JudgeVariant(e.step, L, rs[i], indexed) : i \in 1..Len(rs)}
      \* knob independence: all variants return the same set (when no limit picks freely)
      sets == {SeqToSet(rs[i].ids) : i \in 1..Len(rs)}
      free == ("limit" \in DOMAIN e.step \/ "offset" \in DOMAIN e.step) /\ ~("order" \in DOMAIN e.step)
      \* count_rows(filter) (it always may use an index)
      cells == PCells(L)
      E == {c.id : c \in {x \in cells : Holds(e.step.pred, x)}}
      U == {c.id : c \in {x \in cells : Eval(e.step.pred, x) = "N"}}
      cnt1 == rs[1].count
      cntBad == IF rs[1].res = "ok" /\ cnt1 # Cardinality(E)
                THEN {<<IF indexed THEN "IndexedCountEqualsEval" ELSE "CountEqualsEval",
                        IF cnt1 > Cardinality(E) /\ cnt1 <= Cardinality(E \cup U) /\ HasNot(e.step.pred)
                        THEN "unknown-rows-kept-under-negation" ELSE "wrong-count">>}
                ELSE {}
  \* every variant is judged against the reference evaluation, which implies knob independence
  IN per \cup cntBad

\* one random-access call: by = "offset" | "rowid" | "addr"
JudgeOneTake(L, by, keys, res, ids) ==
  LET scan == PScanCells(L) IN
  IF by = "offset"
  THEN (IF \A i \in 1..Len(keys) : keys[i] < Len(scan)
        THEN (IF res = "ok" /\ ids = [i \in 1..Len(keys) |-> scan[keys[i] + 1].id] THEN {} ELSE {<<"TakeEqualsScan", "offsets">>})
        ELSE (IF res = "ok" THEN {<<"TakeEqualsScan", "out-of-range-accepted">>} ELSE {}))
  ELSE LET rows == PRows(L)
           \* by = "rowid": stable row ids; by = "addr": <<fragment, offset>> pairs (the driver composes
           \* the 64-bit address, which does not fit TLC's integers)
           ridOf(r) == IF by = "rowid" THEN r.rid ELSE <<r.fid, r.off>>
           known == {ridOf(r) : r \in rows}
       IN IF \A i \in 1..Len(keys) : keys[i] \in known
          THEN (IF res = "ok" /\ ids = [i \in 1..Len(keys) |-> (CHOOSE r \in rows : ridOf(r) = keys[i]).id]
                THEN {} ELSE {<<"TakeRowsEqualsScan", by>>})
          ELSE {}    \* keys that name no live row: not specified by the property
JudgeTake(e, L) ==
  IF e.step.op = "take" THEN JudgeOneTake(L, e.step.by, e.step.keys, e.res, IF "ids" \in DOMAIN e.extra THEN e.extra.ids ELSE <<>>)
  ELSE IF "takes" \notin DOMAIN e.extra THEN {<<"TakeEqualsScan", "probe-failed">>}
  ELSE UNION {JudgeOneTake(L, e.extra.takes[i].by, e.extra.takes[i].keys, e.extra.takes[i].res, e.extra.takes[i].ids)
              : i \in 1..Len(e.extra.takes)}

\* C08: after a cleanup every version the policy retains (and the latest, tagged ones, and versions not older than the
\* handle the cleanup ran through) reads exactly as before; removed ones are only policy-selected ones
JudgeCleanup(e) ==
  IF "hv" \notin DOMAIN e.extra THEN {}     \* the cleanup did not run (its handle's version no longer exists)
  ELSE
  LET st == e.step
      x == e.extra
      tagged == {x.tags[i][2] : i \in 1..Len(x.tags)}
      Lv == Max(DOMAIN obs)
      before == IF "before_version" \in DOMAIN st THEN st.before_version ELSE 1000000
      selected == {v \in DOMAIN obs : v < before /\ v < x.hv /\ v # Lv}
      blocked == ("error_if_tagged" \in DOMAIN st) /\ st.error_if_tagged /\ selected \cap tagged # {}
      mustStay == IF blocked THEN DOMAIN obs ELSE (DOMAIN obs) \ (selected \ tagged)
      readOf(v) == LET k == CHOOSE i \in 1..Len(x.rereads) : x.rereads[i][1] = v IN x.rereads[k][2]
      seen == {x.rereads[i][1] : i \in 1..Len(x.rereads)}
  IN (IF \A v \in mustStay : v \in seen /\ readOf(v) = obs[v] THEN {} ELSE {<<"RetainedReadable", "retained-version-changed">>})
     \cup (IF \A v \in (DOMAIN obs) \cap seen : IsErr(readOf(v)) \/ readOf(v) = obs[v] THEN {} ELSE {<<"RetainedReadable", "version-altered">>})
     \cup (IF blocked /\ e.res = "ok" THEN {<<"OnlyPolicyManifests", "tagged-old-version-not-reported">>} ELSE {})
     \cup (IF ~blocked /\ e.res # "ok" THEN {<<"RetainedReadable", "cleanup-failed">>} ELSE {})

\* C42: the copied root reads, at every observed version and through every tag, what the original read
JudgeCopy(e) ==
  IF e.res # "ok" \/ "projs" \notin DOMAIN e.extra THEN {<<"CopyReadsSame", "copy-unreadable">>}
  ELSE LET ps == e.extra.projs IN
       (IF \A i \in 1..Len(ps) : (ps[i][1] \in DOMAIN obs) => ps[i][2] = obs[ps[i][1]] THEN {} ELSE {<<"CopyReadsSame", "version-differs">>})
       \cup (IF e.extra.tags_before = e.extra.tags_after
                /\ (\A i \in 1..Len(e.extra.tag_reads) :
                      \E j \in 1..Len(e.extra.tags_before) : e.extra.tags_before[j] = e.extra.tag_reads[i])
             THEN {} ELSE {<<"CopyReadsSame", "tags-differ">>})

\* C12: the rows a DML statement removed / (re)inserted are the ones the SQL reference semantics selects
JudgeDml(e, L, R, indexed) ==
  LET st == e.step
      P == e.latest
      eff == Effect(st, R)
      dObs == PIds(L) \ {r.id : r \in {x \in PRows(P) : x.fid \in PFragIds(L)}}
      nObs == {r.id : r \in {x \in PRows(P) : x.fid \notin PFragIds(L)}}
      wantDel == eff.del \cap PIds(L)
      cls == IF wantDel \subseteq dObs /\ (dObs \ wantDel) \subseteq eff.unk /\ dObs # wantDel /\ indexed /\ HasNot(st.pred)
             THEN "unknown-rows-affected-under-negation" ELSE "wrong-rows"
  IN
  IF e.res = "ok"
  THEN (IF eff.mustFail THEN {<<"DmlMatchesSqlModel", "must-fail-accepted">>} ELSE {})
       \cup (IF ~eff.mustFail /\ (dObs # wantDel \/ nObs # eff.new) THEN {<<"DmlMatchesSqlModel", cls>>} ELSE {})
       \cup (IF ~eff.mustFail /\ nObs = eff.new /\ (\E i \in eff.new : PRowOf(P, i).val # eff.val[i])
             THEN {<<"DmlMatchesSqlModel", "wrong-values">>} ELSE {})
       \cup (IF st.op = "update" /\ "rows_updated" \in DOMAIN e.extra /\ e.extra.rows_updated # Cardinality(nObs)
             THEN {<<"DmlMatchesSqlModel", "rows-updated-count">>} ELSE {})
  \* a valid statement through an up-to-date handle must be carried out (conflicts are a matter of C03/C04;
  \* a merge_insert that is configured to change nothing is refused as invalid input)
  ELSE IF /\ R = L /\ ~eff.mustFail /\ e.res \notin {"retryable", "incompatible", "contention"}
          /\ ~(st.op = "merge_insert" /\ "in_place" \notin DOMAIN st /\ "matched" \in DOMAIN st
               /\ st.matched = "do_nothing" /\ st.not_matched = "do_nothing" /\ st.nmbs = "keep")
       THEN {<<"DmlMatchesSqlModel", "refused-valid-statement">>}
  ELSE {}

Ops == {"create","append","overwrite","checkout","refresh","delete","update","merge_insert","compact","restore","reread","validate",
        "query","take","take_probe","create_index","optimize_indices","copy_reread","tag","drop_table","cleanup","age_files","begin_append","commit"}

Init == /\ l = 1 /\ obs = <<>> /\ hvT = <<>> /\ issued = {} /\ truth = <<>> /\ truthAt = <<>>
        /\ serial = {} /\ touched = <<>> /\ stable = FALSE /\ scn = 0 /\ bad = <<>>
        /\ cnt = [o \in Ops \cup {"scenarios", "ok", "retryable", "incompatible", "other", "stale_ok", "stale_conflict"} |-> 0]

\* names: set of invariant names; pairs: set of <<invariant, class>>
AddBad2(names, pairs, e) ==
  IF names = {} /\ pairs = {} THEN bad
  ELSE IF Len(bad) < 300
  THEN bad \o SetToSeq({<<l, e.scn, e.i, e.step.op, nm, "">> : nm \in names}
                        \cup {<<l, e.scn, e.i, e.step.op, pr[1], pr[2]>> : pr \in pairs})
  ELSE bad
AddBad(names, e) == AddBad2(names, {}, e)

Reset(e) ==
  /\ obs' = <<>> /\ hvT' = <<>> /\ issued' = {} /\ truth' = <<>> /\ truthAt' = <<>>
  /\ serial' = {} /\ touched' = <<>> /\ stable' = e.stable /\ scn' = e.scn
  /\ bad' = bad
  /\ cnt' = [cnt EXCEPT !["scenarios"] = @ + 1]

Step(e) ==
  LET st == e.step
      op == st.op
      P == e.latest
      first == obs = <<>>
  IN
  IF op = "drop_table"
  THEN \* the table is removed; a later create starts a new incarnation at the same location
       /\ obs' = <<>> /\ hvT' = <<>> /\ issued' = {} /\ truth' = <<>> /\ truthAt' = <<>>
       /\ serial' = {} /\ touched' = <<>> /\ bad' = bad
       /\ UNCHANGED <<stable, scn>>
       /\ cnt' = [cnt EXCEPT ![op] = @ + 1]
  ELSE IF first
  THEN \* the creating step: adopt the observation, judge only the version itself
       LET names == IF IsErr(P) THEN {"LatestUnreadable"}
                    ELSE (IF WellFormedP(P) THEN {} ELSE {"WellFormed"})
                         \cup (IF e.res = "ok" /\ PScanIds(P) = [i \in 1..Len(st.rows) |-> st.rows[i][1]]
                                  /\ PLogical(P) = RowsSet(StepRows(st)) /\ P.v = 1 THEN {} ELSE {"ScanEqualsModel"})
       IN /\ bad' = AddBad(names, e)
          /\ obs' = IF IsErr(P) THEN obs ELSE (P.v :> P)
          /\ hvT' = e.handles
          /\ issued' = IF IsErr(P) THEN {} ELSE {r.rid : r \in PRows(P)}
          /\ truth' = IF IsErr(P) THEN <<>> ELSE [i \in PIds(P) |-> [cre |-> P.v, upd |-> P.v]]
          /\ truthAt' = IF IsErr(P) THEN <<>> ELSE (P.v :> [i \in PIds(P) |-> [cre |-> P.v, upd |-> P.v]])
          /\ serial' = IF IsErr(P) THEN {} ELSE PLogical(P)
          /\ touched' = <<>>
          /\ UNCHANGED <<stable, scn>>
          /\ cnt' = [cnt EXCEPT ![op] = @ + 1]
  ELSE
       LET Lv == Max(DOMAIN obs)
           L == obs[Lv]
           h == IF "h" \in DOMAIN st THEN st.h ELSE "main"
           rv == IF h \in DOMAIN hvT THEN hvT[h] ELSE 0
           R == IF rv \in DOMAIN obs THEN obs[rv] ELSE L
           usable == ~IsErr(P)
           indexed == L.indices # <<>>
           pairs == IF op = "query" THEN JudgeQuery(e, L, indexed)
                    ELSE IF op \in {"take", "take_probe"} THEN JudgeTake(e, L)
                    ELSE IF op = "copy_reread" THEN JudgeCopy(e)
                    ELSE IF op = "cleanup" THEN JudgeCleanup(e)
                    ELSE IF op \in {"delete", "update", "merge_insert"} /\ usable /\ "in_place" \notin DOMAIN st
                    THEN JudgeDml(e, L, R, indexed)
                    ELSE {}
           names1 == IF op \in {"query", "take", "take_probe", "copy_reread", "tag", "cleanup", "age_files", "begin_append"} THEN (IF e.latest # L THEN {"FailedHasNoEffect"} ELSE {})
                     ELSE IF op = "reread"
                     THEN (IF e.res = "ok" /\ st.v \in DOMAIN obs /\ e.extra.proj # obs[st.v] THEN {"VersionsImmutable"} ELSE {})
                          \cup (IF e.res # "ok" /\ st.v \in DOMAIN obs THEN {"VersionsImmutable"} ELSE {})
                     ELSE Judge(e)
           serial2 == SerialAfter(e, R)
           truth2 == IF usable THEN TruthAfter(e, R, P) ELSE truth
           \* row ids that this step handed out: ids of rows whose key was not live before (or all, for overwrite)
           newIssued == IF ~usable \/ e.res # "ok" THEN {}
                        ELSE IF op = "overwrite" THEN {r.rid : r \in PRows(P)}
                        ELSE IF op = "restore" THEN {}
                        ELSE {r.rid : r \in {x \in PRows(P) : x.id \notin PIds(L)}}
           dmlBad == \E pr \in pairs : pr[1] = "DmlMatchesSqlModel"
           \* a statement that selected the wrong rows is reported once, as DmlMatchesSqlModel (C12)
           names2 == IF usable /\ op # "reread"
                     THEN GhostJudge(e, P, serial2, truth2, newIssued) \ (IF dmlBad THEN {"SerialEquivalence", "VersionColumnsCorrect"} ELSE {})
                     ELSE {}
           names == names1 \cup names2 \cup {pr[1] : pr \in {x \in pairs : x[1] = "DmlMatchesSqlModel"}}
           stale == rv # 0 /\ rv < Lv /\ op \in {"append","delete","update","merge_insert","compact"}
           \* as built: an in-place column rewrite (merge_insert with a sub-schema source) stamps
           \* _row_last_updated_at_version with read version + 1 when it writes; committed through a stale handle
           \* on top of newer versions the stamp stays.  Recognised exactly: the only wrong values are such stamps.
           staleStamp == /\ op = "merge_insert" /\ "in_place" \in DOMAIN st /\ rv # 0 /\ rv < Lv /\ usable
                         /\ "VersionColumnsCorrect" \in names2
                         /\ \A r \in PRows(P) :
                               (r.id \notin DOMAIN truth2 \/ r.cre # truth2[r.id].cre \/ r.upd # truth2[r.id].upd)
                                 => (r.id \in DOMAIN truth2 /\ r.cre = truth2[r.id].cre /\ r.upd = rv + 1
                                     /\ truth2[r.id].upd = P.v)
       IN /\ bad' = AddBad2((names1 \cup names2) \ (IF staleStamp THEN {"VersionColumnsCorrect"} ELSE {}),
                            pairs \cup (IF staleStamp THEN {<<"VersionColumnsCorrect", "in-place-rewrite-stamps-read-version-plus-one">>}
                                        ELSE {}), e)
          \* versions a cleanup removed are forgotten (they can no longer be read or restored)
          /\ obs' = IF op = "cleanup" /\ "rereads" \in DOMAIN e.extra
                    THEN LET rr == e.extra.rereads
                             gone == {rr[i][1] : i \in {j \in 1..Len(rr) : IsErr(rr[j][2])}} \ {Lv}
                         IN [v \in (DOMAIN obs) \ gone |-> obs[v]]
                    ELSE IF usable /\ P.v \notin DOMAIN obs THEN obs @@ (P.v :> P) ELSE obs
          /\ hvT' = e.handles
          \* re-synchronise the ghosts with the observation after a violation so it is reported once
          /\ serial' = IF usable /\ names # {} THEN PLogical(P) ELSE serial2
          /\ truth' = IF usable /\ names # {} THEN [i \in PIds(P) |-> [cre |-> PRowOf(P, i).cre, upd |-> PRowOf(P, i).upd]] ELSE truth2
          /\ truthAt' = IF usable /\ P.v \notin DOMAIN truthAt
                        THEN truthAt @@ (P.v :> (IF names # {} THEN [i \in PIds(P) |-> [cre |-> PRowOf(P, i).cre, upd |-> PRowOf(P, i).upd]] ELSE truth2))
                        ELSE truthAt
          /\ issued' = IF usable THEN issued \cup {r.rid : r \in PRows(P)} ELSE issued
          /\ touched' = IF usable /\ P.v \notin DOMAIN touched /\ e.res = "ok" THEN touched @@ (P.v :> TouchedBy(e, R)) ELSE touched
          /\ UNCHANGED <<stable, scn>>
          /\ cnt' = [cnt EXCEPT ![IF op \in Ops THEN op ELSE "other"] = @ + 1,
                                ![IF e.res \in {"ok","incompatible"} THEN e.res
                                  ELSE IF e.res \in {"retryable","contention"} THEN "retryable" ELSE "other"] = @ + 1,
                                !["stale_ok"] = @ + (IF stale /\ e.res = "ok" THEN 1 ELSE 0),
                                !["stale_conflict"] = @ + (IF stale /\ e.res \in {"retryable","contention","incompatible"} THEN 1 ELSE 0)]

Next == /\ l <= N
        /\ l' = l + 1
        /\ LET e == Rec[l] IN
           IF e.ev = "reset" THEN Reset(e) ELSE Step(e)
TraceSpec == Init /\ [][Next]_tvars

Report == (l = N + 1) => PrintT(<<"REPORT", ToJson([events |-> N, bad |-> bad, counts |-> cnt])>>)
TraceAccepted == TLCGet("stats").diameter = N + 1
=============================================================================
