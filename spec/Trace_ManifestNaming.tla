------------------------ MODULE Trace_ManifestNaming ------------------------
(* Validates recorded calls of the real ManifestNamingScheme::{manifest_path,
   parse_version, detect_scheme, detect_scheme_staging}, CommitHandler::
   {resolve_latest_location, list_manifest_locations}, migrate_scheme_to_v2 and
   of Dataset commits / checkout_latest (harness/src/bin/vh_naming.rs) against
   ManifestNamingOps.  One event per line, every event judged independently;
   failures are collected in `bad` as <<position, op, class, via>> where `via`
   names the deviation of ManifestNamingOps that explains the recorded result
   ("unexplained" if none does).  Directory contents outside the scope of the
   exactness claim (junk names, mixed V1/V2, detached in a V1 directory) are
   judged too, but only counted (`info`).                                     *)
EXTENDS ManifestNamingOps, Json, IOUtils

Rec == ndJsonDeserialize(IOEnv.TRACE)
N   == Len(Rec)

VARIABLES l, bad, cnt, info, shapes
tvars == <<l, bad, cnt, info, shapes>>

RangeOf(t) == {t[k] : k \in 1..Len(t)}
OutRec(o) == [t |-> o[1], v |-> o[2], e |-> o[3], s |-> IF o[1] = "ok" THEN o[4] ELSE "none"]
SameOut(a, b) == a.t = b.t /\ (a.t = "ok" => a = b)

\* ---- operator probes ------------------------------------------------------
StripStaging(name) ==
  IF Len(name) > 37 /\ name[Len(name) - 36] = "-" /\ IsUuid(SubSeq(name, Len(name) - 35, Len(name)))
  THEN SubSeq(name, 1, Len(name) - 37) ELSE name
IsStaging(name) == StripStaging(name) # name
Canonical(s, name) == LET v == Parse(s, name) IN v # NONE /\ ~IsDetached(v) /\ Format(s, v) = name
IsDetName(name) == /\ Len(name) >= 2 /\ name[1] = "d"
                   /\ LET v == Parse("V1", Tail(name)) IN v # NONE /\ FormatDet(v) = name
ParseJudge(s, name, r) ==
  /\ r # <<-9>>
  /\ LET base == StripStaging(name) IN
     IF Canonical(s, base) THEN r = Parse(s, base)
     ELSE IF IsDetName(base) THEN r = NONE
     ELSE TRUE
DetectJudge(name, r) == /\ r # "panic"
                        /\ \A s \in Schemes : Canonical(s, name) => r = s
DetectStgJudge(name, r) == /\ r # "panic"
                           /\ \A s \in Schemes : (IsStaging(name) /\ Canonical(s, StripStaging(name))) => r = s
CmpJudge(s, a, b, o) ==
  LET x == Format(s, a)  y == Format(s, b) IN
  o = (IF x = y THEN 0 ELSE IF NameLess(x, y) THEN -1 ELSE 1)

\* ---- discovery ------------------------------------------------------------
LOf(store) == store = "lex"
Explains(store, lst, o, D) ==
  IF store = "local"
  THEN \E p1 \in Perms(RangeOf(lst)) : \E p2 \in Perms(RangeOf(lst)) : SameOut(OutRec(o), RunLocal(p1, p2, D))
  ELSE SameOut(OutRec(o), RunList(lst, LOf(store), D))
Via(store, lst, o) ==
  IF Explains(store, lst, o, {"V2InScanArm"}) THEN "V2InScanArm"
  ELSE IF Explains(store, lst, o, {"UnwrapNone"}) THEN "UnwrapNone"
  ELSE IF Explains(store, lst, o, {"UnwrapNone", "V2InScanArm"}) THEN "UnwrapNone+V2InScanArm"
  ELSE "unexplained"
ListingOK(store, lst) == /\ \A k \in 1..Len(lst) : lst[k] \in Eids
                         /\ Len(lst) = Cardinality(RangeOf(lst))
                         /\ (store = "lex" => lst = LexSort(RangeOf(lst)))
ItemsOK(items) == \A k \in 1..Len(items) :
                     /\ items[k][2] \in Eids
                     /\ items[k][1] = Idx(items[k][2])
                     /\ Kind(items[k][2]) \in {"v1", "v2"}
                     /\ items[k][3] = SchemeOfKind(Kind(items[k][2]))
ListJudge(dir, sorted, res, items) ==
  /\ res[1] = "ok"
  /\ ItemsOK(items)
  /\ ListOK(dir, sorted, [k \in 1..Len(items) |-> items[k][2]])
MigrateJudge(before, res, after) ==
  /\ res[1] = "ok"
  /\ \A k \in 1..Len(after) : after[k] \in Eids
  /\ Len(after) = Cardinality(RangeOf(after))
  /\ MigrateOK(RangeOf(before), RangeOf(after))

Ops == {"univ", "entry", "fmt", "parse", "detect", "detect_stg", "cmp", "resolve", "list", "migrate",
        "e2e_commit", "e2e_latest", "e2e_detached"}
DirOps == {"resolve", "list", "migrate"}
DirOf(e) == RangeOf(IF e[1] = "list" THEN e[4] ELSE e[3])
\* the scope of an event with a directory: migrate_scheme_to_v2 is *meant* for V1 / mixed directories
ScopeOf(e) == LET c == DirClass(DirOf(e)) IN
              IF e[1] = "migrate" /\ c \in {"mixed", "v1det"} THEN "ok" ELSE c

\* strong judgement of one event
OK(e) ==
  LET op == e[1] IN
  CASE op = "univ"   -> e[2] = EmbName /\ e[3] = NA /\ e[4] = ND /\ e[5] = Emb /\ e[6] = Universe
    [] op = "entry"  -> e[2] \in Eids /\ NameMatches(e[2], e[3])
    [] op = "fmt"    -> IsU64(e[3]) /\ e[4] = "base/_versions" /\ e[5] = Format(e[2], e[3])
    [] op = "parse"  -> ParseJudge(e[2], e[3], e[4])
    [] op = "detect" -> DetectJudge(e[2], e[3])
    [] op = "detect_stg" -> DetectStgJudge(e[2], e[3])
    [] op = "cmp"    -> CmpJudge(e[2], e[3], e[4], e[5])
    [] op = "resolve" -> ListingOK(e[2], e[3]) /\ ResolveOK(RangeOf(e[3]), OutRec(e[4]))
    [] op = "list"   -> ListingOK(e[2], e[4]) /\ ListJudge(RangeOf(e[4]), e[3], e[5], e[6])
    [] op = "migrate" -> ListingOK("any", e[3]) /\ MigrateJudge(e[3], e[4], e[5])
    \* through the table API: after k commits a fresh look sees version k, detached commits or not
    [] op = "e2e_commit"   -> e[6] = <<"ok", e[5]>>
    [] op = "e2e_latest"   -> e[7] = <<"ok", e[5]>>
    [] op = "e2e_detached" -> e[5] = <<"ok", 1>>
    [] OTHER -> FALSE

Class(e) ==
  LET op == e[1] IN
  CASE op = "resolve" -> <<e[2], DirShape(RangeOf(e[3])), e[4][1]>>
    [] op = "list"    -> <<e[2], DirShape(RangeOf(e[4])), e[5][1]>>
    [] op = "migrate" -> <<e[2], DirShape(RangeOf(e[3])), e[4][1]>>
    [] op \in {"e2e_commit", "e2e_latest"} -> <<e[2], e[4], e[Len(e)][1]>>
    [] op = "e2e_detached" -> <<e[2], e[4], e[5][1]>>
    [] op \in {"fmt", "parse"} -> <<e[2]>>
    [] OTHER -> <<"any">>
ViaOf(e) ==
  LET op == e[1] IN
  CASE op = "resolve" /\ ListingOK(e[2], e[3]) -> Via(e[2], e[3], e[4])
    [] op = "e2e_latest" /\ ~e[3] /\ e[2] # "file" /\ e[4] = "V2" /\ e[5] >= 2 /\ e[7][1] = "err" -> "V2InScanArm"
    [] OTHER -> "unexplained"

Scopes == {"junk", "mixed", "v1det"}
Init == /\ l = 1 /\ bad = <<>>
        /\ cnt = [o \in Ops \cup {"scoped", "unknown", "bad"} |-> 0]
        /\ shapes = [s \in {"lex", "unord", "local"} |->
                       [d \in {"detached-only", "no-manifest", "attached+detached", "attached"} |-> 0]]
        /\ info = [o \in DirOps |-> [s \in Scopes |-> [v \in {"pass", "fail"} |-> 0]]]
Next == /\ l <= N
        /\ l' = l + 1
        /\ LET e == Rec[l]
               known == e[1] \in Ops
               scope == IF known /\ e[1] \in DirOps THEN ScopeOf(e) ELSE "ok"
               ok == known /\ OK(e)
           IN /\ cnt' = IF ~known THEN [cnt EXCEPT !["unknown"] = @ + 1, !["bad"] = @ + 1]
                        ELSE [cnt EXCEPT ![e[1]] = @ + 1, !["scoped"] = @ + (IF scope = "ok" THEN 1 ELSE 0),
                                         !["bad"] = @ + (IF scope = "ok" /\ ~ok THEN 1 ELSE 0)]
              \* in-scope resolutions per store and directory shape (vacuity accounting)
              /\ shapes' = IF known /\ e[1] = "resolve" /\ scope = "ok" /\ e[2] \in DOMAIN shapes
                           THEN [shapes EXCEPT ![e[2]][DirShape(RangeOf(e[3]))] = @ + 1] ELSE shapes
              /\ info' = IF scope = "ok" THEN info
                         ELSE [info EXCEPT ![e[1]][scope][IF ok THEN "pass" ELSE "fail"] = @ + 1]
              /\ bad' = IF scope # "ok" \/ ok \/ Len(bad) >= 400 THEN bad
                        ELSE Append(bad, <<l, e[1], IF known THEN Class(e) ELSE <<"unknown-op">>,
                                           IF known THEN ViaOf(e) ELSE "unexplained">>)
TraceSpec == Init /\ [][Next]_tvars

Report == (l = N + 1) =>
            PrintT(<<"REPORT", ToJson([events |-> N, bad |-> bad, counts |-> cnt, info |-> info, shapes |-> shapes,
                                         emb |-> EmbName, NE |-> NE])>>)
TraceAccepted == TLCGet("stats").diameter = N + 1
=============================================================================
