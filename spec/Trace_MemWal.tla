---------------------------- MODULE Trace_MemWal ----------------------------
(* Validates recorded executions of the real MemWAL API (harness/src/bin/vh_memwal.rs)
   against MemWalOps.tla (property C39).

   Every event carries the call (kind, handle, region, generation, expected / new owner,
   entry id), its result class, the version every handle is pinned at, and the raw decoded
   MemWalIndexDetails.mem_wal_list of the latest version.  The validator keeps the observed
   version history (index of every version + the transaction that produced it, rebuilt from
   the call and the index of the handle's read version with MemWalOps!BuildOp) and judges
   every step twice:

   Conformance   the observed result class and the observed new list equal what the model
                 predicts (BuildOp, Check over the versions committed since the read version,
                 ApplyList) for some subset of the deviations `Believed` to describe the code;
                 the table's rows and fragments are untouched by MemWAL calls.  A mismatch is a
                 nonconformance (class "result" / "state" / "raw" / "rows" / "version").
   The property  the seven invariants of MemWalOps evaluated on the observed history.  A new
                 violation is recorded together with the deviations that were *necessary* to
                 explain the step (the smallest explaining subset, MemWalOps!Explain); a
                 violating step that needed none inherits the deviations of the closest earlier
                 deviating step of its scenario.

   Failures are collected in `bad` (printed as BAD at the end of each scenario); the run always
   reaches the end and prints one REPORT. *)
EXTENDS MemWalOps, Json, IOUtils, SequencesExt

CONSTANT Believed      \* the deviations currently believed to describe the code (a subset of AsBuilt)

Rec == ndJsonDeserialize(IOEnv.TRACE)
N == Len(Rec)

VARIABLES l,        \* next event
          obs,      \* observed version history: sequence of [idx, list, txn]
          raw,      \* the raw projection of the latest version as last recorded
          hvT,      \* handle -> version
          scn,      \* current scenario
          lastDev,  \* deviations of the closest earlier deviating step
          skip,     \* the scenario lost synchronisation (after a "version" nonconformance)
          bad,      \* recorded failures <<event, scenario, step, kind, invariant, class / deviations>>
          cnt
tvars == <<l, obs, raw, hvT, scn, lastDev, skip, bad, cnt>>

ProjE(x) == Entry(x.r, x.g, x.st, x.own, x.hi, x.lu)
ProjList(s) == [i \in 1..Len(s) |-> ProjE(s[i])]
IsErr(P) == "error" \in DOMAIN P

Kinds == {"create", "checkout", "advance", "append", "seal", "flush", "merge", "owner", "trim", "mmerge", "tappend"}
Counters == Kinds \cup {"scenarios", "events", "ok", "incompatible", "invalid", "unsupported", "other",
                        "stale_ok", "stale_incompatible", "versions_judged", "skipped_steps",
                        "explained_by_deviation"} \cup AsBuilt
Bump(c, names) == [x \in DOMAIN c |-> c[x] + (IF x \in names THEN 1 ELSE 0)]

Init == /\ l = 1 /\ obs = <<>> /\ raw = [list |-> <<>>, rows |-> 0, frags |-> 0] /\ hvT = <<>> /\ scn = 0
        /\ lastDev = <<>> /\ skip = FALSE /\ bad = <<>>
        /\ cnt = [x \in Counters |-> 0]

AddBad(entries) == bad \o entries

Reset(e) ==
  /\ obs' = <<>> /\ raw' = [list |-> <<>>, rows |-> 0, frags |-> 0] /\ hvT' = <<>> /\ scn' = e.scn
  /\ lastDev' = <<>> /\ skip' = FALSE
  /\ (IF bad = <<>> THEN TRUE ELSE PrintT(<<"BAD", ToJson(bad)>>))   \* failures of the finished scenario
  /\ bad' = <<>>
  /\ cnt' = Bump(cnt, {"scenarios", "events"})

\* keep going without judging (after loss of synchronisation or an unreadable latest version)
Pass(e, names) ==
  /\ UNCHANGED <<obs, raw, scn, lastDev>>
  /\ hvT' = e.handles
  /\ cnt' = Bump(cnt, names \cup {"events"})

Step(e) ==
  LET st == e.step
      k == st.k
      P == e.latest
  IN
  IF skip THEN Pass(e, {"skipped_steps"}) /\ UNCHANGED <<skip, bad>>
  ELSE IF IsErr(P) \/ k \notin Kinds
  THEN /\ Pass(e, {"other"}) /\ skip' = TRUE
       /\ bad' = AddBad(<<<<l, e.scn, e.i, k, "Conformance", <<"latest-unreadable">> >>>>)
  ELSE IF obs = <<>>
  THEN \* the creating step
       LET good == k = "create" /\ e.res = "ok" /\ P.v = 1 /\ ~P.idx /\ P.list = <<>> IN
       /\ obs' = <<[idx |-> FALSE, list |-> <<>>, txn |-> NoTxn]>>
       /\ raw' = [list |-> P.list, rows |-> P.rows, frags |-> P.frags]
       /\ hvT' = e.handles
       /\ skip' = ~good
       /\ bad' = IF good THEN bad ELSE AddBad(<<<<l, e.scn, e.i, k, "Conformance", <<"create">> >>>>)
       /\ cnt' = Bump(cnt, {"create", "events", IF e.res = "ok" THEN "ok" ELSE "other"})
       /\ UNCHANGED <<scn, lastDev>>
  ELSE
  LET Lv == Len(obs)
      L == obs[Lv]
      pl == ProjList(P.list)
      unchanged == P.v = Lv /\ P.idx = L.idx /\ pl = L.list /\ P.list = raw.list
  IN
  IF k = "checkout"
  THEN LET good == e.res = "ok" /\ unchanged /\ st.h \in DOMAIN e.handles /\ e.handles[st.h] = st.v IN
       /\ Pass(e, {"checkout", IF e.res = "ok" THEN "ok" ELSE "other"})
       /\ skip' = ~good
       /\ bad' = IF good THEN bad ELSE AddBad(<<<<l, e.scn, e.i, k, "Conformance", <<"checkout">> >>>>)
  ELSE IF st.h \notin DOMAIN hvT \/ (st.h \in DOMAIN hvT /\ hvT[st.h] \notin 1..Lv)
  THEN /\ Pass(e, {"other"}) /\ skip' = TRUE
       /\ bad' = AddBad(<<<<l, e.scn, e.i, k, "Conformance", <<"no-handle">> >>>>)
  ELSE
  LET rv == hvT[st.h]
      op == CallOf(st)
      okObs == e.res = "ok"
      ex == Explain(Believed, obs, rv, op, e.res, P.idx, pl)
      pa == ex.p
      confVer == P.v = (IF okObs THEN Lv + 1 ELSE Lv)
      confRes == ex.ok \/ e.res = pa.res
      confState == IF okObs THEN ex.ok
                   ELSE P.idx = L.idx /\ pl = L.list /\ P.list = raw.list          \* a failed call changes nothing
      touched == Writes(pa.t) \cup pa.t.removed
      confRaw == /\ \A i \in 1..Len(P.list) : P.list[i].n = P.list[i].hi           \* entry ids are 1..hi
                 /\ P.nidx = (IF P.idx THEN 1 ELSE 0)
                 /\ okObs => \A x \in SeqSet(raw.list) : Id(x) \notin touched => x \in SeqSet(P.list)
      \* the table itself: a MemWAL call leaves rows and fragments alone; the merge_insert / append of the
      \* scenarios add one row in one new fragment; a failed call changes nothing
      grow == IF okObs /\ k \in {"mmerge", "tappend"} THEN 1 ELSE 0
      confRows == P.rows = raw.rows + grow /\ P.frags = raw.frags + grow
      cls == IF ~confVer THEN <<"version">> ELSE IF ~confRes THEN <<"result">>
             ELSE IF ~confState THEN <<"state">> ELSE IF ~confRaw THEN <<"raw">>
             ELSE IF ~confRows THEN <<"rows">> ELSE <<>>
      conforms == cls = <<>>
      \* deviations without which the model would not have predicted this step
      necSeq == IF ex.ok THEN ex.dev ELSE <<>>
      necessary == SeqSet(necSeq)
      dev == IF necSeq # <<>> THEN necSeq ELSE lastDev
      newver == [idx |-> P.idx, list |-> pl, txn |-> pa.t]
      obs2 == IF okObs /\ confVer THEN Append(obs, newver) ELSE obs
      fresh == IF okObs /\ confVer THEN Fresh(obs2, Lv + 1) ELSE {}
      freshSeq == SelectSeq(InvNames, LAMBDA nm : nm \in fresh)
      stale == rv < Lv
      resC == IF e.res \in {"ok", "incompatible", "invalid", "unsupported"} THEN e.res ELSE "other"
  IN
  /\ obs' = obs2
  /\ raw' = [list |-> P.list, rows |-> P.rows, frags |-> P.frags]
  /\ hvT' = e.handles
  /\ skip' = ~confVer
  /\ lastDev' = dev
  /\ bad' = AddBad((IF conforms THEN <<>> ELSE <<<<l, e.scn, e.i, k, "Conformance", cls>>>>)
                   \o [j \in 1..Len(freshSeq) |-> <<l, e.scn, e.i, k, freshSeq[j], dev>>])
  /\ cnt' = Bump(cnt, {k, "events", resC}
                      \cup (IF stale /\ e.res = "ok" THEN {"stale_ok"} ELSE {})
                      \cup (IF stale /\ e.res = "incompatible" THEN {"stale_incompatible"} ELSE {})
                      \cup (IF okObs /\ confVer THEN {"versions_judged"} ELSE {})
                      \cup (IF necessary # {} THEN {"explained_by_deviation"} ELSE {})
                      \cup necessary)
  /\ UNCHANGED scn

Next == /\ l <= N
        /\ l' = l + 1
        /\ LET e == Rec[l] IN
           IF e.ev = "reset" THEN Reset(e) ELSE Step(e)
TraceSpec == Init /\ [][Next]_tvars

Report == (l = N + 1) => PrintT(<<"REPORT", ToJson([events |-> N, bad |-> bad, counts |-> cnt])>>)
TraceAccepted == TLCGet("stats").diameter = N + 1
=============================================================================
