--------------------------- MODULE Trace_Namespace ---------------------------
(* Validates recorded executions of harness/src/bin/vh_namespace.rs (property C36).

   The trace is a batch of scenarios.  A "reset" event starts one (mode, names with special
   characters, pairs of ids whose "$"-joined text coincides); every "step" event carries the
   call, its result class and output, and the observation made right after it: table_exists +
   describe_table and namespace_exists + describe_namespace for the probe ids, unlimited
   list_tables + list_namespaces for the probe paths.

   The validator keeps the MEANING of spec/Namespace.tla -- the map  id -> [kind, loc]  (`m`) --
   applies every accepted call to it and judges:

     CatalogIsMap             the call's result / a probe's answer differs from the map's
     OperationsAreLocal       a probe's answer for an id other than the step's subject (or the listing
                              of another parent) changed although the map says it did not
     UnfaithfulNamesRejected  a create / register was accepted but the name does not round-trip
                              through exists / describe / list
     PagingCoversOnce         following the page tokens of a listing loses or repeats entries

   What the property leaves open is accepted either way (and counted): whether create / register
   need an existing parent namespace; refusal of a name with special characters (as long as
   nothing changes); an idempotent create of an existing table / drop of an absent one; listing a
   path that is not a namespace; in dual mode a deregistered root table stays visible through the
   directory fallback (dir.rs test_deregister_table says so), so its id is "limbo" afterwards.

   Failures are collected in `bad` as <<position, scenario, step, operation, property, deviation,
   what, cause, probing call>>: `cause` is read off the names involved, `deviation` is the as-built
   deviation of spec/Namespace.tla that explains such an answer ("none" = unexplained; one more class is
   known to the validator only: "FailedCallNotRolledBack", a refused call that changed an answer).  An id / path
   whose answer was wrong once is not judged again in that scenario (one defect, one report).   *)
EXTENDS Naturals, Integers, Sequences, SequencesExt, FiniteSets, TLC, Json, IOUtils

Rec == ndJsonDeserialize(IOEnv.TRACE)
N   == Len(Rec)

VARIABLES l, bad, cnt,
          m,        \* the map: id -> [kind, loc]
          limT, limN, limP,   \* ids / paths whose probes are no longer judged (table probes, namespace probes, listings)
          unk,      \* ids whose status the map no longer knows (dual-mode directory fallback, a call answered against the map)
          dirty,    \* the current scenario already has a failure
          prev,     \* previous observation
          meta,     \* [mode, special, alias, quoted, dollar, slashed, nonascii]
          scn
tvars == <<l, bad, cnt, m, limT, limN, limP, unk, dirty, prev, meta, scn>>

SeqToSet(s) == {s[i] : i \in 1..Len(s)}
Kind(c, id) == IF id \in DOMAIN c THEN c[id].kind ELSE "none"
IsNs(c, id) == id = <<>> \/ Kind(c, id) = "ns"
ParentsOK(c, id) == \A k \in 1..(Len(id) - 1) : Kind(c, SubSeq(id, 1, k)) = "ns"
PrefixOf(p, s) == Len(p) <= Len(s) /\ SubSeq(s, 1, Len(p)) = p
Parent(id) == SubSeq(id, 1, Len(id) - 1)
Leaf(id) == id[Len(id)]
Children(c, p, k) == {Leaf(x) : x \in {y \in DOMAIN c : Len(y) = Len(p) + 1 /\ Parent(y) = p /\ c[y].kind = k}}
HasChild(c, p) == \E x \in DOMAIN c : Len(x) > Len(p) /\ PrefixOf(p, x)
Put(c, id, e) == [x \in DOMAIN c \cup {id} |-> IF x = id THEN e ELSE c[x]]
Del(c, id) == [x \in DOMAIN c \ {id} |-> c[x]]
Flat(pages) == LET RECURSIVE F(_) F(k) == IF k = 0 THEN <<>> ELSE F(k - 1) \o pages[k] IN F(Len(pages))
NoDup(s) == \A i, j \in 1..Len(s) : s[i] = s[j] => i = j

CreateOps == {"create_table", "create_empty_table", "register_table", "create_ns"}
TableCreateOps == {"create_table", "create_empty_table"}
DirOffers(op, id) ==
  IF op \in {"create_table", "create_empty_table", "drop_table", "describe_table", "table_exists"} THEN Len(id) = 1
  ELSE IF op \in {"ns_exists", "describe_ns", "list_ns", "list_tables"} THEN id = <<>>
  ELSE op = "reopen"

HasName(id, S) == \E i \in 1..Len(id) : id[i] \in S
Aliased(x, y) == \E i \in 1..Len(meta.alias) : meta.alias[i] = <<x, y>>
\* Why an answer about `id` can be wrong, told from the names involved (the step's subject included); the first
\* that applies of: a quote in a name; a "yes" about an id that holds an object of the other kind; the "$"-joined
\* text of the id coincides with that of an object in the catalog / of the subject; a "$" in a name; a "/" in a
\* name; a non-ASCII letter; another special character; none of these.
Cause(c, id, subj, yes) ==
  LET both == {id, subj} IN
  IF \E y \in both : HasName(y, SeqToSet(meta.quoted)) THEN "quoted-name"
  ELSE IF yes /\ id \in DOMAIN c THEN "other-kind-same-id"
  ELSE IF \E x \in (DOMAIN c \cup {subj}) : Aliased(id, x) THEN "delimiter-alias"
  ELSE IF HasName(id, SeqToSet(meta.dollar)) THEN "delimiter-name"
  ELSE IF HasName(id, SeqToSet(meta.slashed)) THEN "path-like-name"
  ELSE IF HasName(id, SeqToSet(meta.nonascii)) THEN "non-ascii-name"
  ELSE IF HasName(id, SeqToSet(meta.special)) THEN "special-name"
  ELSE "plain-name"
\* for a listing: the cause of one of the names that are missing / extra; if those are unremarkable (e.g. a name the
\* catalog made up), the cause read off the step's subject
ListCause(c, p, names, subj) ==
  LET cs == {Cause(c, p \o <<n>>, subj, FALSE) : n \in names}
      own == IF subj = <<"?reopen">> THEN "plain-name" ELSE Cause(c, subj, subj, FALSE) IN
  IF "delimiter-alias" \in cs THEN "delimiter-alias"
  ELSE IF \E x \in cs : x # "plain-name" THEN CHOOSE x \in cs : x # "plain-name"
  ELSE own
\* the as-built deviation of spec/Namespace.tla that explains a wrong answer of this kind ("none": unexplained)
DevOf(what, cause) ==
  CASE cause \in {"delimiter-alias", "delimiter-name"} -> "DelimiterNameAccepted"
    [] cause = "quoted-name" -> "QuoteNameInterpolated"
    [] cause \in {"path-like-name", "non-ascii-name"} -> "PathEncodingMismatch"
    [] cause = "page-cut-at-limit-without-token" -> "PageTruncatedNoToken"
    [] what = "failed-call-changed-answer" -> "FailedCallNotRolledBack"
    [] cause = "other-kind-same-id" -> "KindBlindLookup"
    [] OTHER -> "none"

(***************************************************************************)
(* What the map answers to a call                                          *)
(***************************************************************************)
Touches(id, lim) == \E k \in 1..Len(id) : SubSeq(id, 1, k) \in lim
Exp(c, st) ==
  LET op == st.op id == IF op = "reopen" THEN <<>> ELSE st.id IN
  IF op = "reopen" THEN "ok"
  ELSE IF meta.mode = "dir" /\ ~DirOffers(op, id) THEN "err"
  ELSE IF Touches(id, unk) THEN "either"
  ELSE CASE op = "create_ns" -> IF id = <<>> \/ id \in DOMAIN c THEN "err" ELSE IF ParentsOK(c, id) THEN "ok" ELSE "either"
         [] op = "drop_ns" -> IF Kind(c, id) = "ns" /\ ~HasChild(c, id) THEN "ok" ELSE "err"
         [] op \in TableCreateOps -> IF Kind(c, id) = "table" THEN "idem" ELSE IF id \in DOMAIN c THEN "err"
                                     ELSE IF ParentsOK(c, id) THEN "ok" ELSE "either"
         [] op = "register_table" -> IF id \in DOMAIN c THEN "err" ELSE IF ParentsOK(c, id) THEN "ok" ELSE "either"
         [] op \in {"drop_table", "deregister_table"} -> IF Kind(c, id) = "table" THEN "ok" ELSE IF Kind(c, id) = "ns" THEN "err" ELSE "idem"
         [] op \in {"describe_table", "table_exists"} -> IF Kind(c, id) = "table" THEN "ok" ELSE "err"
         [] op \in {"ns_exists", "describe_ns"} -> IF IsNs(c, id) THEN "ok" ELSE "err"
         [] op \in {"list_tables", "list_ns"} -> IF IsNs(c, id) THEN "ok" ELSE "either"
         [] OTHER -> "either"
AcceptClass(c, st) ==
  LET op == st.op id == st.id IN
  IF meta.mode = "dir" /\ ~DirOffers(op, id) THEN "accepted-call-the-mode-does-not-offer"
  ELSE IF op = "drop_ns" /\ Kind(c, id) = "ns" THEN "accepted-on-non-empty-namespace"
  ELSE IF Kind(c, id) = "none" THEN "accepted-on-absent-id"
  ELSE IF op \in CreateOps THEN "accepted-on-existing-id"
  ELSE "accepted-on-object-of-other-kind"
Apply(c, st, out) ==
  LET op == st.op id == st.id IN
  CASE op = "create_ns" -> Put(c, id, [kind |-> "ns", loc |-> ""])
    [] op \in TableCreateOps -> IF Kind(c, id) = "table" THEN c ELSE Put(c, id, [kind |-> "table", loc |-> out.rel])
    [] op = "register_table" -> Put(c, id, [kind |-> "table", loc |-> out.rel])
    [] op \in {"drop_ns", "drop_table", "deregister_table"} -> Del(c, id)
    [] OTHER -> c

(***************************************************************************)
(* Probes                                                                  *)
(***************************************************************************)
FindT(obs, id) == LET is == {i \in 1..Len(obs.t) : obs.t[i].id = id} IN
                  IF is = {} THEN [id |-> id, ex |-> "?", de |-> "?", loc |-> "", ver |-> -1] ELSE obs.t[CHOOSE i \in is : TRUE]
FindN(obs, id) == LET is == {i \in 1..Len(obs.n) : obs.n[i].id = id} IN
                  IF is = {} THEN [id |-> id, ex |-> "?", de |-> "?"] ELSE obs.n[CHOOSE i \in is : TRUE]
FindL(ls, p) == LET is == {i \in 1..Len(ls) : ls[i].id = p} IN
                IF is = {} THEN [id |-> p, res |-> "?", names |-> <<>>] ELSE ls[CHOOSE i \in is : TRUE]
\* "" = the probe answers as the map
TWhat(c, pr) ==
  IF Kind(c, pr.id) = "table"
  THEN (IF pr.ex # "ok" THEN "exists-says-no" ELSE IF pr.de # "ok" THEN "describe-says-no"
        ELSE IF pr.loc # c[pr.id].loc THEN "location-differs" ELSE "")
  ELSE (IF pr.ex = "ok" THEN "exists-says-yes" ELSE IF pr.de = "ok" THEN "describe-says-yes" ELSE "")
NWhat(c, pr) ==
  IF IsNs(c, pr.id)
  THEN (IF pr.ex # "ok" THEN "exists-says-no" ELSE IF pr.de # "ok" THEN "describe-says-no" ELSE "")
  ELSE (IF pr.ex = "ok" THEN "exists-says-yes" ELSE IF pr.de = "ok" THEN "describe-says-yes" ELSE "")
LimLeafs(p, lim) == {Leaf(x) : x \in {y \in lim : Len(y) = Len(p) + 1 /\ Parent(y) = p}}
LWhat(c, pr, k, lim) ==
  LET want == Children(c, pr.id, k) \ LimLeafs(pr.id, lim)
      got == SeqToSet(pr.names) \ LimLeafs(pr.id, lim) IN
  IF pr.res # "ok" THEN (IF IsNs(c, pr.id) /\ (meta.mode # "dir" \/ pr.id = <<>>) THEN "listing-failed" ELSE "")
  ELSE IF ~NoDup(pr.names) THEN "duplicates"
  ELSE IF want \ got # {} THEN "entries-missing"
  ELSE IF got \ want # {} THEN "entries-extra" ELSE ""
Panics(obs) == (\E i \in 1..Len(obs.t) : obs.t[i].ex = "panic" \/ obs.t[i].de = "panic")
               \/ (\E i \in 1..Len(obs.n) : obs.n[i].ex = "panic" \/ obs.n[i].de = "panic")
               \/ (\E i \in 1..Len(obs.lt) : obs.lt[i].res = "panic") \/ (\E i \in 1..Len(obs.ln) : obs.ln[i].res = "panic")

\* at most 25 entries are kept per class (property, deviation, what, cause): a frequent defect must not crowd out a
\* rare one; the counters "bad_events" / "bad_scenarios" count all of them
ClassOf(x) == <<x[5], x[6], x[7], x[8]>>
AddBad(es) ==
  LET keep == {x \in es : Cardinality({i \in 1..Len(bad) : ClassOf(bad[i]) = ClassOf(x)}) < 25} IN
  IF keep = {} THEN bad ELSE bad \o SetToSeq(keep)

Step(e) ==
  LET st == e.step
      op == st.op
      subj == IF op = "reopen" THEN <<"?reopen">> ELSE st.id
      ok == e.res = "ok"
      obs == e.obs
      ent(inv, what, cause, call) == <<l, e.scn, e.i, op, inv, DevOf(what, cause), what, cause, call>>
      exp == Exp(m, st)
      special == op # "reopen" /\ HasName(subj, SeqToSet(meta.special))
      \* 1. the call's own answer
      refused == exp = "ok" /\ ~ok
      resBad == IF e.res \in {"panic", "timeout"} THEN {ent("CatalogIsMap", e.res, "", op)}
                ELSE IF refused /\ ~special
                THEN {ent("CatalogIsMap", IF FindT(obs, subj) # FindT(prev, subj) \/ FindN(obs, subj) # FindN(prev, subj)
                                          THEN "failed-call-changed-answer" ELSE "refused-valid-call", Cause(m, subj, subj, FALSE), op)}
                ELSE IF exp = "err" /\ ok THEN {ent("CatalogIsMap", AcceptClass(m, st), Cause(m, subj, subj, TRUE), op)}
                ELSE {}
      \* 2. the map after the call (an accepted call is applied even when the map would have refused it)
      m2 == IF ok /\ op # "reopen" THEN Apply(m, st, e.out) ELSE m
      locBad == IF ok /\ exp = "ok" /\ op \in {"drop_table", "deregister_table"} /\ e.out.rel # m[subj].loc
                THEN {ent("CatalogIsMap", "returns-another-location", Cause(m, subj, subj, FALSE), op)} ELSE {}
      \* dual mode: a deregistered root table stays visible through the directory fallback (documented)
      dualLimbo == IF ok /\ op = "deregister_table" /\ meta.mode = "dual" /\ Len(subj) = 1 THEN {subj} ELSE {}
      \* a call answered against the map (e.g. drop_namespace accepted on a table id) is reported once; what its subject
      \* is afterwards is unknown; so is the subject of any call on an id of unknown status
      lost == dualLimbo \cup (IF op # "reopen" /\ (resBad # {} \/ Touches(subj, unk)) THEN {subj} ELSE {})
      limT1 == limT \cup lost
      limN1 == limN \cup lost
      \* 3. probes
      created == ok /\ op \in CreateOps
      tJudged == {i \in 1..Len(obs.t) : obs.t[i].id \notin limT1}
      nJudged == {i \in 1..Len(obs.n) : obs.n[i].id \notin limN1}
      tWrong == {i \in tJudged : TWhat(m2, obs.t[i]) # ""}
      nWrong == {i \in nJudged : NWhat(m2, obs.n[i]) # ""}
      \* which property a wrong probe answer breaks
      InvOf(id, wantKind, changed) ==
        IF created /\ id = subj /\ Kind(m2, id) = wantKind THEN "UnfaithfulNamesRejected"
        ELSE IF id # subj /\ changed THEN "OperationsAreLocal" ELSE "CatalogIsMap"
      WhatOf(id, w, changed) == IF id = subj /\ ~ok /\ changed THEN "failed-call-changed-answer" ELSE w
      tBad == {LET pr == obs.t[i]
                   w == TWhat(m2, pr)
                   pv == FindT(prev, pr.id)
                   ch == pv.ex # pr.ex \/ pv.de # pr.de \/ pv.loc # pr.loc IN
               ent(InvOf(pr.id, "table", ch), WhatOf(pr.id, w, ch), Cause(m2, pr.id, subj, w \in {"exists-says-yes", "describe-says-yes"}),
                   IF w \in {"exists-says-no", "exists-says-yes"} THEN "table_exists" ELSE "describe_table")
               : i \in tWrong}
      nBad == {LET pr == obs.n[i]
                   w == NWhat(m2, pr)
                   pv == FindN(prev, pr.id)
                   ch == pv.ex # pr.ex \/ pv.de # pr.de IN
               ent(InvOf(pr.id, "ns", ch), WhatOf(pr.id, w, ch), Cause(m2, pr.id, subj, w \in {"exists-says-yes", "describe-says-yes"}),
                   IF w \in {"exists-says-no", "exists-says-yes"} THEN "namespace_exists" ELSE "describe_namespace")
               : i \in nWrong}
      LBad(ls, k, call) ==
        {LET pr == ls[i]
             w == LWhat(m2, pr, k, IF k = "table" THEN limT1 ELSE limN1)
             want == Children(m2, pr.id, k)
             got == SeqToSet(pr.names)
             diff == (want \ got) \cup (got \ want)
             pv == FindL(IF k = "table" THEN prev.lt ELSE prev.ln, pr.id)
             ch == pv.res # pr.res \/ SeqToSet(pv.names) # got
             mine == Len(subj) > 0 /\ pr.id = Parent(subj) /\ op # "reopen"
             inv == IF created /\ mine /\ Leaf(subj) \in (want \ got) /\ Kind(m2, subj) = k THEN "UnfaithfulNamesRejected"
                    ELSE IF ~(mine /\ diff \subseteq {Leaf(subj)}) /\ ch THEN "OperationsAreLocal"
                    ELSE "CatalogIsMap" IN
         ent(inv, IF mine /\ ~ok /\ ch THEN "failed-call-changed-answer" ELSE w, ListCause(m2, pr.id, diff, subj), call)
         : i \in {j \in 1..Len(ls) : ls[j].id \notin limP /\ LWhat(m2, ls[j], k, IF k = "table" THEN limT1 ELSE limN1) # ""}}
      ltBad == LBad(obs.lt, "table", "list_tables")
      lnBad == LBad(obs.ln, "ns", "list_namespaces")
      panicBad == IF Panics(obs) THEN {ent("CatalogIsMap", "panic", "", "probe")} ELSE {}
      \* 4. paging of an explicit listing step
      isList == op \in {"list_tables", "list_ns"} /\ ok
      flat == IF isList THEN Flat(e.out.pages) ELSE <<>>
      unl == IF isList THEN FindL(IF op = "list_tables" THEN obs.lt ELSE obs.ln, subj) ELSE [id |-> <<>>, res |-> "?", names |-> <<>>]
      full == IF unl.res = "ok" THEN SeqToSet(unl.names) ELSE Children(m2, subj, IF op = "list_tables" THEN "table" ELSE "ns")
      pageBad == IF ~isList THEN {}
                 ELSE IF e.out.runaway THEN {ent("PagingCoversOnce", "page-tokens-never-end", "", op)}
                 ELSE IF ~NoDup(flat) THEN {ent("PagingCoversOnce", "entries-repeated", "", op)}
                 ELSE IF full \ SeqToSet(flat) # {}
                 THEN {ent("PagingCoversOnce", "entries-lost", IF st.limit > 0 /\ Len(e.out.pages) = 1 THEN "page-cut-at-limit-without-token" ELSE "", op)}
                 ELSE IF SeqToSet(flat) \ full # {} THEN {ent("PagingCoversOnce", "entries-extra", "", op)}
                 ELSE {}
      overLimit == isList /\ st.limit > 0 /\ \E i \in 1..Len(e.out.pages) : Len(e.out.pages[i]) > st.limit
      allBad == resBad \cup locBad \cup tBad \cup nBad \cup ltBad \cup lnBad \cup panicBad \cup pageBad
  IN
  /\ bad' = AddBad(allBad)
  /\ dirty' = (dirty \/ allBad # {})
  /\ m' = m2
  \* (an object that was created but is not found afterwards is of unknown status too)
  /\ unk' = unk \cup lost \cup {x \in {subj} : created /\ ((Kind(m2, x) = "table" /\ \E i \in tWrong : obs.t[i].id = x)
                                                            \/ (Kind(m2, x) = "ns" /\ \E i \in nWrong : obs.n[i].id = x))}
  /\ limT' = limT1 \cup {obs.t[i].id : i \in tWrong}
  /\ limN' = limN1 \cup {obs.n[i].id : i \in nWrong}
  /\ limP' = limP \cup {obs.lt[i].id : i \in {j \in 1..Len(obs.lt) : obs.lt[j].id \notin limP /\ LWhat(m2, obs.lt[j], "table", limT1) # ""}}
                  \cup {obs.ln[i].id : i \in {j \in 1..Len(obs.ln) : obs.ln[j].id \notin limP /\ LWhat(m2, obs.ln[j], "ns", limN1) # ""}}
  /\ prev' = obs
  /\ cnt' = [cnt EXCEPT ![op] = @ + 1,
                        !["ok_steps"] = @ + (IF ok THEN 1 ELSE 0),
                        !["bad_events"] = @ + Cardinality(allBad),
                        !["bad_scenarios"] = @ + (IF ~dirty /\ allBad # {} THEN 1 ELSE 0),
                        !["probes_judged"] = @ + Cardinality(tJudged) + Cardinality(nJudged) + Len(obs.lt) + Len(obs.ln),
                        !["probes_existing"] = @ + Cardinality({i \in tJudged : Kind(m2, obs.t[i].id) = "table"})
                                                 + Cardinality({i \in nJudged : Kind(m2, obs.n[i].id) = "ns"}),
                        !["paged_listings"] = @ + (IF isList /\ st.limit > 0 THEN 1 ELSE 0),
                        !["multi_page_listings"] = @ + (IF isList /\ Len(e.out.pages) > 1 THEN 1 ELSE 0),
                        !["info_name_refused"] = @ + (IF refused /\ special THEN 1 ELSE 0),
                        !["info_idempotent_accept"] = @ + (IF exp = "idem" /\ ok THEN 1 ELSE 0),
                        !["info_parentless_accepted"] = @ + (IF exp = "either" /\ ok /\ op \in CreateOps THEN 1 ELSE 0),
                        !["info_parentless_refused"] = @ + (IF exp = "either" /\ ~ok /\ op \in CreateOps THEN 1 ELSE 0),
                        !["info_page_longer_than_limit"] = @ + (IF overLimit THEN 1 ELSE 0),
                        !["info_dual_deregistered_stays_visible"] = @ + Cardinality(dualLimbo),
                        !["special_name_steps"] = @ + (IF special THEN 1 ELSE 0),
                        !["special_name_accepted"] = @ + (IF special /\ created THEN 1 ELSE 0)]
  /\ UNCHANGED <<meta, scn>>

Reset(e) ==
  /\ m' = <<>> /\ limT' = {} /\ limN' = {} /\ limP' = {} /\ unk' = {} /\ dirty' = (e.build # "ok")
  /\ prev' = e.obs
  /\ meta' = [mode |-> e.mode, special |-> e.meta.special, alias |-> e.meta.alias, quoted |-> e.meta.quoted,
              dollar |-> e.meta.dollar, slashed |-> e.meta.slashed, nonascii |-> e.meta.nonascii]
  /\ scn' = e.scn
  /\ bad' = IF e.build = "ok" THEN bad ELSE AddBad({<<l, e.scn, 0, "build", "CatalogIsMap", "none", "namespace-cannot-be-built", e.mode, "build">>})
  /\ cnt' = [cnt EXCEPT !["scenarios"] = @ + 1, ![e.mode] = @ + 1, !["bad_scenarios"] = @ + (IF e.build # "ok" THEN 1 ELSE 0)]

Counters == {"scenarios", "dir", "manifest", "dual", "ok_steps", "bad_events", "bad_scenarios", "probes_judged", "probes_existing", "paged_listings", "multi_page_listings",
             "info_name_refused", "info_idempotent_accept", "info_parentless_accepted", "info_parentless_refused",
             "info_page_longer_than_limit", "info_dual_deregistered_stays_visible", "special_name_steps", "special_name_accepted",
             "create_ns", "drop_ns", "describe_ns", "ns_exists", "list_ns", "create_table", "create_empty_table", "drop_table",
             "register_table", "deregister_table", "describe_table", "table_exists", "list_tables", "reopen"}
Init == /\ l = 1 /\ bad = <<>> /\ cnt = [c \in Counters |-> 0]
        /\ m = <<>> /\ limT = {} /\ limN = {} /\ limP = {} /\ unk = {} /\ dirty = FALSE
        /\ prev = [t |-> <<>>, n |-> <<>>, lt |-> <<>>, ln |-> <<>>]
        /\ meta = [mode |-> "", special |-> <<>>, alias |-> <<>>, quoted |-> <<>>, dollar |-> <<>>, slashed |-> <<>>, nonascii |-> <<>>]
        /\ scn = 0
Next == /\ l <= N /\ l' = l + 1
        /\ IF Rec[l].ev = "reset" THEN Reset(Rec[l]) ELSE Step(Rec[l])
TraceSpec == Init /\ [][Next]_tvars

Report == (l = N + 1) => PrintT(<<"REPORT", ToJson([events |-> N, bad |-> bad, counts |-> cnt])>>)
TraceAccepted == TLCGet("stats").diameter = N + 1
=============================================================================
