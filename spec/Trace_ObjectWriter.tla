------------------------ MODULE Trace_ObjectWriter ------------------------
(* Validates traces recorded by harness/src/bin/vh_objwriter.rs (the real
   lance_io::object_writer::ObjectWriter over a scripted mock store) against
   ObjectWriterOps.React and evaluates the C31 invariants on every state of
   the implementation's trace.

   Events (one JSON object per line):
     {"k":"reset","sc":id,"part":..,"maxpar":..,"maxresets":..,"mode":..,"plan":[..]}
     {"k":"step","sc":id,"i":n,"step":[op,a,o],"calls":[..],"api":[..],"vis":b,"dest":[[s,l]..],..}
     {"k":"panic","sc":id,"msg":..}
   A step is *explained* if the reaction of the model (first with the intended
   design, then with the deviations AsBuilt) reproduces exactly the recorded
   store calls (with payload segments), API result and destination listing.
   A step nothing explains is a nonconformance: it is recorded in `bad` with
   a class <<op, writer state, first differing observable>> and the rest of
   the scenario is skipped.  After every explained step all invariants are
   evaluated on the state (whose observable part equals what was recorded);
   a violated invariant is recorded with the deviation that was needed to
   explain the scenario.                                                    *)
EXTENDS ObjectWriterOps, TLC, Json, IOUtils

CONSTANT AsBuilt     \* deviations believed to describe the code, e.g. {"RetryAppendsPart"}

Rec == ndJsonDeserialize(IOEnv.TRACE)
N   == Len(Rec)

VARIABLES l, s, dev, skip, bad, viol, st
tvars == <<l, s, dev, skip, bad, viol, st>>

NoCfg == [part |-> 1, maxpar |-> 1, maxresets |-> 0, mode |-> "order", plan |-> {}]
SetOf(seq) == {seq[i] : i \in 1..Len(seq)}

InvNames == <<"NothingVisibleBeforeDone", "DoneEqualsConcat", "FailLeavesNothing",
              "AbortLeavesNothing", "PendingCanProgress">>
Holds(name, x) ==
  CASE name = "NothingVisibleBeforeDone" -> NothingVisibleBeforeDone(x)
    [] name = "DoneEqualsConcat"   -> DoneEqualsConcat(x)
    [] name = "FailLeavesNothing"  -> FailLeavesNothing(x)
    [] name = "AbortLeavesNothing" -> AbortLeavesNothing(x)
    [] name = "PendingCanProgress" -> PendingCanProgress(x)
Broken(x) == SelectSeq(InvNames, LAMBDA nm : ~Holds(nm, x))

\* values of different kinds (a string where the model has a number) must compare unequal, not
\* stop TLC: compare canonical JSON texts
Same(a, b) == ToJson(a) = ToJson(b)
Match(R, e) == /\ Same(R.out, e.calls)
               /\ Same(ApiOf(R), e.api)
               /\ R.s.vis = e.vis
               /\ Same(R.s.dest, e.dest)
Diff(R, e) == IF ~Same(R.out, e.calls) THEN "calls"
              ELSE IF ~Same(ApiOf(R), e.api) THEN "api"
              ELSE IF R.s.vis # e.vis THEN "visible" ELSE "contents"

\* statistics for the vacuity checks of lib/checks/c31.py
Stat0 == [scenarios |-> 0, steps |-> 0, explained |-> 0, deviated |-> 0, done_ok |-> 0, multipart_done |-> 0,
          single_done |-> 0, pending |-> 0, errs |-> {}, ops |-> {}, part_outcomes |-> {}, retries |-> 0,
          blocked_on_parallelism |-> 0, orphan_uploads |-> 0, closed |-> {}, maxcalls |-> 0]
Upd(t, e, R, used) ==
  [t EXCEPT !.steps = @ + 1, !.explained = @ + 1,
            !.deviated = @ + (IF used # {} THEN 1 ELSE 0),
            !.done_ok = @ + (IF R.s.done /\ ~s.done THEN 1 ELSE 0),
            !.multipart_done = @ + (IF R.s.done /\ ~s.done /\ R.s.mpu = "completed" THEN 1 ELSE 0),
            !.single_done = @ + (IF R.s.done /\ ~s.done /\ R.s.mpu = "none" THEN 1 ELSE 0),
            !.pending = @ + (IF R.r = "pending" THEN 1 ELSE 0),
            !.errs = @ \cup (IF R.s.err # "none" THEN {R.s.err} ELSE {}),
            !.ops = @ \cup {e.step[1]},
            !.part_outcomes = @ \cup (IF e.step[1] = "done" THEN {e.step[3]} ELSE {}),
            !.retries = @ + (R.s.resets - s.resets),
            !.blocked_on_parallelism = @ + (IF R.r = "pending" /\ R.s.pk = "write" /\ e.step[1] = "write" THEN 1 ELSE 0),
            !.orphan_uploads = @ + (IF OrphanUpload(R.s) /\ ~OrphanUpload(s) THEN 1 ELSE 0),
            !.closed = @ \cup (IF R.s.closed # "no" THEN {<<R.s.closed, R.s.st>>} ELSE {}),
            !.maxcalls = IF Len(R.s.calls) > @ THEN Len(R.s.calls) ELSE @]

Init == /\ l = 1 /\ s = InitW(NoCfg) /\ dev = {} /\ skip = TRUE /\ bad = <<>> /\ viol = {} /\ st = Stat0

AddBad(b) == IF Len(bad) < 200 THEN Append(bad, b) ELSE bad

Next ==
  /\ l <= N
  /\ l' = l + 1
  /\ LET e == Rec[l] IN
     CASE e.k = "reset" ->
            /\ s' = InitW([part |-> e.part, maxpar |-> e.maxpar, maxresets |-> e.maxresets,
                           mode |-> e.mode, plan |-> SetOf(e.plan)])
            /\ dev' = {} /\ skip' = FALSE /\ viol' = {} /\ bad' = bad
            /\ st' = [st EXCEPT !.scenarios = @ + 1]
       [] e.k = "step" /\ skip -> UNCHANGED <<s, dev, skip, bad, viol, st>>
       [] e.k = "step" /\ ~skip ->
            IF ~Enabled(s, e.step)
            THEN /\ bad' = AddBad([pos |-> l, sc |-> e.sc, kind |-> "illegal-step", class |-> <<e.step[1], s.st, "-">>, dev |-> dev])
                 /\ skip' = TRUE /\ UNCHANGED <<s, dev, viol, st>>
            ELSE LET R0 == React(s, e.step, dev)
                     R1 == React(s, e.step, dev \cup AsBuilt)
                     ok0 == Match(R0, e)
                     ok1 == Match(R1, e)
                     R == IF ok0 THEN R0 ELSE R1
                     d1 == IF ok0 THEN dev ELSE dev \cup AsBuilt
                 IN IF ok0 \/ ok1
                    THEN LET br == SelectSeq(Broken(R.s), LAMBDA nm : nm \notin viol) IN
                         /\ s' = R.s /\ dev' = d1 /\ skip' = FALSE
                         /\ viol' = viol \cup SetOf(br)
                         /\ bad' = IF br = <<>> THEN bad
                                   ELSE AddBad([pos |-> l, sc |-> e.sc, kind |-> "invariant", class |-> br, dev |-> d1])
                         /\ st' = Upd(st, e, R, d1)
                    ELSE /\ bad' = AddBad([pos |-> l, sc |-> e.sc, kind |-> "nonconformance",
                                           class |-> <<e.step[1], s.st, Diff(R0, e)>>, dev |-> dev])
                         /\ skip' = TRUE /\ st' = [st EXCEPT !.steps = @ + 1]
                         /\ UNCHANGED <<s, dev, viol>>
       [] OTHER ->   \* panic or unknown event
            /\ bad' = AddBad([pos |-> l, sc |-> e.sc, kind |-> "panic", class |-> <<e.k, s.st, "-">>, dev |-> dev])
            /\ skip' = TRUE /\ UNCHANGED <<s, dev, viol, st>>

TraceSpec == Init /\ [][Next]_tvars

Report == (l = N + 1) => PrintT(<<"REPORT", ToJson([events |-> N, bad |-> bad, stats |-> st])>>)
TraceAccepted == TLCGet("stats").diameter = N + 1
=============================================================================
