--------------------------- MODULE Trace_Pruning ---------------------------
(* Judges the traces recorded by harness/src/bin/vh_pruning.rs (C20, C29).

   Events (one JSON object per line):
     reset  a new scenario (fresh table)
     step   one history step (write / delete / update / index / optimize / compact) with the
            fragment list after it: [id, physical rows, deleted rows]
     table  the rows of the table before a block of queries: [id, model value, fragment, offset],
            read without index and without statistics; index type, covered fragments, zone size
     q      one predicate: the scan result of every execution variant (+ plan nodes) and the
            row set `ScalarIndex::search` returned for the predicate's index query
     qend   end of the block (result class of the block itself)

   Judgement of a q event, with E = rows where Sql3VL!Eval (HasSub for contains) is TRUE:
     UnprunedEqualsEval      variant "base" (no index, no statistics) returns E. This is the
                             CALIBRATION of the value embedding (float total order), not C20/C29
     IndexedScanEqualsEval   variants that may use the inexact index return E            (C20)
     StatsScanEqualsEval     variants that may use page statistics return E              (C29)
     SearchSuperset          search answered Exact/AtMost(S): E restricted to covered fragments
                             is inside S; AtLeast(S): S is inside E           (C20, C29 zone map)
   Failures are collected in `bad` as <<line, scenario, step, query, invariant, class, variant>>.
   Agreement of zone-map / bloom answers with the transcribed ZMEval / "inserted => contained"
   on tables whose zones are known is only COUNTED (zagree / zdiffer): a sound but different
   pruning rule is not a violation.                                                     *)
EXTENDS Pruning, IOUtils

Rec == ndJsonDeserialize(IOEnv.TRACE)
N == Len(Rec)

VARIABLES l, bad, cnt,
          tb,        \* the last table event
          trainDel,  \* some fragment had deleted rows when the index was (re)trained
          trainGap   \* fragment ids were not consecutive when the index was (re)trained
tvars == <<l, bad, cnt, tb, trainDel, trainGap, frags, del, idx, cov, hasIdx, steps, last, strs, nid>>

IdxVariants == {"idx", "idx_prefilter", "idx_b1", "idx_nostats"}
StatsVariants == {"stats", "stats_ordered"}
BaseVariants == {"base"}
InvOf(name) == IF name \in BaseVariants THEN "UnprunedEqualsEval"
               ELSE IF name \in IdxVariants THEN "IndexedScanEqualsEval"
               ELSE IF name \in StatsVariants THEN "StatsScanEqualsEval"
               ELSE "UnknownVariant"

IsText == Kind = "text"
\* rows of the table: <<id, val, frag, off>>
TRows(t) == t.rowset
HoldsRow(p, r) == IF IsText THEN (r[2] # NULLSTR /\ HasSub(r[2], p[3])) ELSE Holds(p, Row(r[2]))
UnknownRow(p, r) == IF IsText THEN r[2] = NULLSTR ELSE Eval(p, Row(r[2])) = "N"
PredHasNot(p) == IF IsText THEN FALSE ELSE HasNot(p)

Refine(inv, cls, p, missing, extra, t) ==
  IF inv = "StatsScanEqualsEval" /\ ~IsText /\ cls \in {"extra-rows", "rows-missing", "wrong-rows", "unknown-rows-kept-under-negation"}
     /\ \A r \in extra \cup missing : r[2] = NULL
  THEN (IF missing = {} THEN "null-rows-extra" ELSE IF extra = {} THEN "null-rows-missing" ELSE "null-rows-wrong") ELSE
  IF cls = "extra-rows" /\ inv = "StatsScanEqualsEval" /\ Kind = "float" /\ \A r \in extra : r[2] = FNAN THEN "nan-rows-extra"
  ELSE IF cls = "wrong-rows" /\ inv = "StatsScanEqualsEval" /\ Kind = "float" /\ \A r \in extra \cup missing : r[2] = FNAN THEN "nan-rows-wrong"
  ELSE IF cls # "rows-missing" THEN cls
  ELSE IF inv = "StatsScanEqualsEval"
       THEN (IF Kind = "float" /\ \A r \in missing : r[2] = FNAN THEN "nan-rows-missing" ELSE cls)
  ELSE IF inv \in {"IndexedScanEqualsEval", "SearchSuperset"}
       THEN (IF IsText THEN (IF ByteLen(p[3]) < 3 THEN "rows-missing-short-query"
                             ELSE IF Trigrams(p[3]) = {} THEN "rows-missing-no-indexable-trigram" ELSE cls)
             ELSE IF trainGap THEN "rows-missing-fragment-gap-at-training"
             ELSE IF trainDel THEN "rows-missing-deletions-before-training"
             ELSE cls)
  ELSE cls

JudgeVariant(e, t, v) ==
  LET inv == InvOf(v.name)
      rows == TRows(t)
      E == {r \in rows : HoldsRow(e.pred, r)}
      U == {r \in rows : UnknownRow(e.pred, r)}
      gotIds == {v.ids[i] : i \in DOMAIN v.ids}
      got == {r \in rows : r[1] \in gotIds}
      missing == E \ got
      extra == got \ E
      cls == IF extra # {} /\ extra \subseteq U /\ PredHasNot(e.pred) /\ missing = {} THEN "unknown-rows-kept-under-negation"
             ELSE IF missing # {} /\ extra = {} THEN "rows-missing"
             ELSE IF extra # {} /\ missing = {} THEN "extra-rows"
             ELSE "wrong-rows"
  IN IF v.res # "ok" THEN {<<inv, IF v.res = "panic" THEN "query-panicked" ELSE "query-failed", v.name>>}
     ELSE (IF Len(v.ids) # Cardinality(gotIds) THEN {<<inv, "duplicate-rows", v.name>>} ELSE {})
          \cup (IF Cardinality(gotIds) # Cardinality(got) THEN {<<inv, "rows-not-in-table", v.name>>} ELSE {})
          \cup (IF got # E THEN {<<inv, Refine(inv, cls, e.pred, missing, extra, t), v.name>>} ELSE {})
          \* the cells that come back are the cells of the table
          \cup (IF \A i \in DOMAIN v.ids : v.ids[i] \in DOMAIN t.valOf => t.valOf[v.ids[i]] = v.vals[i] THEN {} ELSE {<<inv, "returned-value-differs", v.name>>})

JudgeSearch(e, t) ==
  LET s == e.search
      rows == TRows(t)
      covered == {t.covered[i] : i \in DOMAIN t.covered}
      E == {r \in rows : r[3] \in covered /\ HoldsRow(e.pred, r)}
      sIds == {s.ids[i] : i \in DOMAIN s.ids}
      S == {r \in rows : r[1] \in sIds}
  IN CASE s.kind = "none" -> {}
       [] s.kind = "error" -> {<<"SearchSuperset", "search-failed", "search">>}
       [] s.kind \in {"exact", "atmost"} ->
            IF E \subseteq S THEN {} ELSE {<<"SearchSuperset", Refine("SearchSuperset", "rows-missing", e.pred, E \ S, {}, t), "search">>}
       [] s.kind = "atleast" ->
            IF S \subseteq {r \in rows : HoldsRow(e.pred, r)} THEN {} ELSE {<<"SearchSuperset", "atleast-not-guaranteed", "search">>}
       [] OTHER -> {<<"SearchSuperset", "unknown-answer-kind", "search">>}

\* agreement with the transcription on tables with known zones (zone = rows of one fragment with the
\* same offset div zone size; computed once per table by ZonesOfTable); counted, never a violation.
\* Returns <<agree, differ>>
ZonesOfTable(e) ==
  IF IsText \/ ~e.zoned \/ e.zone < 1 THEN {}
  ELSE LET rows == {e.rows[i] : i \in DOMAIN e.rows}
           keys == {<<r[3], r[4] \div e.zone>> : r \in rows}
           zrows(k) == {r \in rows : r[3] = k[1] /\ r[4] \div e.zone = k[2]}
           zseq(zr) == LET ss == SetToSortSeq(zr, LAMBDA a, b : a[4] < b[4]) IN [i \in DOMAIN ss |-> ss[i][2]]
       IN {LET zr == zrows(k) z == zseq(zr) IN [ids |-> {r[1] : r \in zr}, st |-> ZMStats(z), nn |-> NonNull(z), hasNull |-> NullCount(z) > 0] : k \in keys}
ZoneAgreement(e, t) ==
  IF t.zones = {} \/ e.search.kind \notin {"atmost", "exact"} \/ t.itype \notin {"zonemap", "bloomfilter"} THEN <<0, 0>>
  ELSE LET sIds == {e.search.ids[i] : i \in DOMAIN e.search.ids}
           inS(z) == \E x \in z.ids : x \in sIds
           q == IF t.itype = "zonemap" THEN ToZM(e.pred) ELSE ToBloom(e.pred)
           want(z) == IF t.itype = "zonemap" THEN ZMEval(z.st, q)
                      ELSE BloomEval(z.nn, z.hasNull, q)   \* the exact filter: a lower bound
           agree == IF t.itype = "zonemap" THEN {z \in t.zones : inS(z) = want(z)} ELSE {z \in t.zones : want(z) => inS(z)}
       IN IF q[1] = "none" THEN <<0, 0>> ELSE <<Cardinality(agree), Cardinality(t.zones) - Cardinality(agree)>>

Keys == {"scenarios", "steps", "tables", "queries", "variants", "indexed", "pushdown", "searches", "atmost", "atleast", "exact",
         "nontrivial", "pruned", "zagree", "zdiffer", "qends"}
Bump(c, k, n) == [c EXCEPT ![k] = @ + n]

TInit == /\ l = 1 /\ bad = <<>> /\ cnt = [k \in Keys |-> 0] /\ tb = [rows |-> <<>>, rowset |-> {}, valOf |-> <<>>, zones |-> {}, covered |-> <<>>, itype |-> "none"] /\ trainDel = FALSE /\ trainGap = FALSE
        /\ frags = <<>> /\ del = {} /\ idx = {} /\ cov = {} /\ hasIdx = FALSE /\ steps = 0 /\ last = [op |-> "trace"] /\ strs = <<>> /\ nid = 0

AddBad(b, line, e, found) ==
  LET RECURSIVE Go(_, _)
      Go(acc, S) == IF S = {} \/ Len(acc) >= 400 THEN acc
                    ELSE LET x == CHOOSE y \in S : TRUE IN
                         Go(Append(acc, <<line, e.scn, e.i, IF "qi" \in DOMAIN e THEN e.qi ELSE 0, x[1], x[2], x[3]>>), S \ {x})
  IN Go(b, found)

TNext ==
  /\ l <= N
  /\ l' = l + 1
  /\ UNCHANGED <<frags, del, idx, cov, hasIdx, steps, last, strs, nid>>
  /\ LET e == Rec[l] IN
     CASE e.ev = "reset" ->
            /\ tb' = [rows |-> <<>>, rowset |-> {}, valOf |-> <<>>, zones |-> {}, covered |-> <<>>, itype |-> "none"] /\ trainDel' = FALSE /\ trainGap' = FALSE
            /\ bad' = bad /\ cnt' = Bump(cnt, "scenarios", 1)
       [] e.ev = "step" ->
            LET fr == e.frags
                anyDel == \E i \in DOMAIN fr : fr[i][3] > 0
                gap == \E i \in 1..(Len(fr) - 1) : fr[i + 1][1] # fr[i][1] + 1
                train == e.step.op \in {"index", "optimize"}
            IN /\ trainDel' = IF e.step.op = "index" THEN anyDel ELSE IF train THEN (trainDel \/ anyDel) ELSE trainDel
               /\ trainGap' = IF e.step.op = "index" THEN gap ELSE IF train THEN (trainGap \/ gap) ELSE trainGap
               /\ tb' = tb
               /\ bad' = IF e.res = "ok" THEN bad ELSE AddBad(bad, l, e, {<<"History", "step-failed", e.step.op>>})
               /\ cnt' = Bump(cnt, "steps", 1)
       [] e.ev = "table" ->
            /\ tb' = [rows |-> e.rows, covered |-> e.covered, itype |-> e.itype,
                      rowset |-> {e.rows[i] : i \in DOMAIN e.rows},
                      valOf |-> [x \in {e.rows[i][1] : i \in DOMAIN e.rows} |-> (CHOOSE r \in {e.rows[i] : i \in DOMAIN e.rows} : r[1] = x)[2]],
                      zones |-> ZonesOfTable(e)]
            /\ UNCHANGED <<trainDel, trainGap>>
            /\ bad' = IF ~IsText /\ \E i \in DOMAIN e.rows : e.rows[i][2] = -2 THEN AddBad(bad, l, e, {<<"History", "value-outside-embedding", "table">>}) ELSE bad
            /\ cnt' = Bump(cnt, "tables", 1)
       [] e.ev = "q" ->
            LET found == UNION {JudgeVariant(e, tb, e.results[i]) : i \in DOMAIN e.results} \cup JudgeSearch(e, tb)
                rows == TRows(tb)
                E == {r \in rows : HoldsRow(e.pred, r)}
                za == ZoneAgreement(e, tb)
                usesIdx(v) == \E j \in DOMAIN v.nodes : v.nodes[j] \in {"ScalarIndexQuery", "MaterializeIndex"}
                usesPd(v) == \E j \in DOMAIN v.nodes : v.nodes[j] = "LancePushdownScan"
                nIdx == Cardinality({i \in DOMAIN e.results : e.results[i].name \in IdxVariants /\ usesIdx(e.results[i])})
                nPd == Cardinality({i \in DOMAIN e.results : e.results[i].name \in StatsVariants /\ usesPd(e.results[i])})
                sk == e.search.kind
                c1 == Bump(Bump(Bump(Bump(cnt, "queries", 1), "variants", Len(e.results)), "indexed", nIdx), "pushdown", nPd)
                c2 == IF sk \in {"atmost", "atleast", "exact"} THEN Bump(Bump(c1, "searches", 1), sk, 1) ELSE c1
                c3 == IF E # {} /\ E # rows THEN Bump(c2, "nontrivial", 1) ELSE c2
                c4 == IF sk \in {"atmost", "exact"} /\ Len(e.search.ids) < Cardinality(rows) THEN Bump(c3, "pruned", 1) ELSE c3
            IN /\ bad' = AddBad(bad, l, e, found)
               /\ cnt' = Bump(Bump(c4, "zagree", za[1]), "zdiffer", za[2])
               /\ UNCHANGED <<tb, trainDel, trainGap>>
       [] e.ev = "qend" ->
            /\ bad' = IF e.res = "ok" THEN bad ELSE AddBad(bad, l, e, {<<"History", "queries-aborted", e.res>>})
            /\ cnt' = Bump(cnt, "qends", 1)
            /\ UNCHANGED <<tb, trainDel, trainGap>>
       [] OTHER -> /\ bad' = AddBad(bad, l, [scn |-> 0, i |-> 0], {<<"History", "unknown-event", "trace">>})
                   /\ cnt' = cnt /\ UNCHANGED <<tb, trainDel, trainGap>>
TraceSpec == TInit /\ [][TNext]_tvars

Report == (l = N + 1) => PrintT(<<"REPORT", ToJson([events |-> N, bad |-> bad, counts |-> cnt])>>)
TraceAccepted == TLCGet("stats").diameter = N + 1
=============================================================================
