--------------------------- MODULE Trace_RepDef ---------------------------
(* Validates recorded calls of the real rep/def code (harness/src/bin/vh_repdef.rs)
   against RepDefOps.  One event per line; every event is judged independently
   (the component is stateless); failures are collected in `bad` as
   <<position, check, class>> and printed once at the end.

   "api" events: a scenario of RepDef.tla (how, parts) was fed to
   RepDefBuilder ... serialize, the control-word iterator / parser, RepDefSlicer and
   (Composite)RepDefUnraveler.  Judged:
     input     the echoed scenario is a well-formed, legal column (glue sanity)
     levels    serialised levels / interpretations / max_visible_level = documented scheme
     garbage   add_offsets reports garbage behind null lists exactly when there is some
     cw        control words: row starts, visibility, validity flags, bytes -> parser round trip,
               and row -> level range / item range equal RowLevelRange / RowItemRange
     slice     RepDefSlicer pieces cover all levels and hold the requested number of items
     unravel   unravelled offsets / validity are well formed and denote the input value (C27)
   "file" events: the column was written as a Lance 2.1 file and row ranges / row lists
   were read back.  Judged:
     file      every read returns exactly the requested rows' values (structure and leaf ids)  *)
EXTENDS RepDefOps, Json, IOUtils, SequencesExt

Rec == ndJsonDeserialize(IOEnv.TRACE)
N   == Len(Rec)

VARIABLES l, bad, cnt, cls
tvars == <<l, bad, cnt, cls>>

(***************************************************************************)
(* helpers over one api event                                              *)
(***************************************************************************)
RECURSIVE ConcatAll(_)
ConcatAll(ps) == IF Len(ps) = 1 THEN ps[1] ELSE ConcatSc(ps[1], ConcatAll(Tail(ps)))

PagesOf(e) == IF e.how = "concat" THEN <<ConcatAll(e.parts)>> ELSE e.parts
InputCol(e) == ConcatAll(e.parts)

InputOK(e) ==
  /\ e.how \in {"one", "concat", "pages"}
  /\ Len(e.parts) = (IF e.how = "one" THEN 1 ELSE 2)
  /\ \A i \in 1..Len(e.parts) : /\ e.parts[i].kinds = e.parts[1].kinds
                                /\ WellFormed(e.parts[i]) /\ Legal(e.parts[i]) /\ Rows(e.parts[i]) >= 1
  /\ Len(e.ser) = Len(PagesOf(e))

RecLevels(s) == [hasrep |-> s.hasrep, rep |-> s.rep, hasdef |-> s.hasdef, def |-> s.def, mean |-> s.mean, mvl |-> s.mvl]

SerNoPanic(e) == \A i \in 1..Len(e.ser) : e.ser[i].panic = ""
LevelsOK(e) == \A i \in 1..Len(e.ser) : RecLevels(e.ser[i]) = Levels(PagesOf(e)[i])

\* which named deviation of the serializer explains wrong levels (the finding signature)
LevelsExplainedBy(e) ==
  IF \A i \in 1..Len(e.ser) : RecLevels(e.ser[i]) = Build(PagesOf(e)[i], {"ValidityLenDropsSpecials"})
  THEN "ValidityLenDropsSpecials" ELSE "unexplained"

PanicExplainedBy(e) ==
  IF \A i \in 1..Len(e.ser) : (e.ser[i].panic # "") =>
        (~DebugAssertTrips(PagesOf(e)[i], {}) /\ DebugAssertTrips(PagesOf(e)[i], {"ValidityLenDropsSpecials"}))
  THEN "ValidityLenDropsSpecials" ELSE "unexplained"

\* add_offsets answers, per batch and list layer (outer to inner)
ListLayers(sc) == SelectSeq([k \in 1..NL(sc) |-> k], LAMBDA k : sc.kinds[k] = "L")
GarbageOf(sc) == [i \in 1..Len(ListLayers(sc)) |-> IF HasGarbage(sc, ListLayers(sc)[i]) THEN 1 ELSE 0]
GarbageOK(e) ==
  \A i \in 1..Len(e.ser) :
     LET bs == IF e.how = "concat" THEN e.parts ELSE <<e.parts[i]>> IN
     e.ser[i].garbage = [b \in 1..Len(bs) |-> GarbageOf(bs[b])]

NoF(sc) == \A k \in 1..NL(sc) : sc.kinds[k] # "F"
B01(b) == IF b THEN 1 ELSE 0

\* control words of page i
CwOK(e, i) ==
  LET sc == PagesOf(e)[i]
      lv == Levels(sc)
      c  == e.cw[i]
      n  == LvLen(lv, Slots(sc, NL(sc)))
      st == SelectSeq([x \in 1..n |-> x], LAMBDA x : c.new_row[x] = 1)
  IN
  /\ c.panic = "" /\ c.n = n /\ c.words = n
  /\ Len(c.new_row) = n /\ Len(c.visible) = n /\ Len(c.valid) = n
  /\ \A x \in 1..n : /\ c.new_row[x] = B01(IsRowStart(lv, x))
                     /\ c.visible[x] = B01(IsVisible(lv, x))
                     /\ c.valid[x] = B01(LvDef(lv, x) = 0)
  \* bytes -> parser
  /\ (c.bpw > 0) => /\ c.prep = lv.rep /\ c.pdef = lv.def
                    /\ c.pnew = c.new_row /\ c.pvis = c.visible
  /\ c.has_rep = B01(lv.hasrep)
  /\ (c.bpw = 0) => (~lv.hasrep /\ ~lv.hasdef)
  \* row -> levels / items, as the full-zip repetition index is built from these flags
  /\ NoF(sc) =>
       /\ Len(st) = Rows(sc)
       /\ \A r \in 1..Rows(sc) :
            LET lo == st[r] - 1
                hi == IF r < Rows(sc) THEN st[r+1] - 1 ELSE n
                before == Cardinality({x \in 1..lo : c.visible[x] = 1})
                inside == Cardinality({x \in (lo+1)..hi : c.visible[x] = 1})
            IN /\ <<lo, hi>> = RowLevelRange(sc, r)
               /\ <<before, before + inside>> = RowItemRange(sc, r)
CwAllOK(e) == Len(e.cw) = Len(e.ser) /\ \A i \in 1..Len(e.cw) : CwOK(e, i)

\* RepDefSlicer: pieces of `step` items
RECURSIVE Prefix(_, _)
Prefix(s, k) == IF k = 0 THEN 0 ELSE s[k] + Prefix(s, k - 1)
CutsOK(lv, cuts, step, leaf, present) ==
  IF ~present THEN cuts = <<>>
  ELSE LET n == LvLen(lv, leaf) IN
       /\ Len(cuts) >= 1
       /\ SumSeq(cuts) = n
       /\ \A x \in 1..Len(cuts) : cuts[x] >= 0
       /\ Len(cuts) = (IF leaf <= step THEN 1 ELSE ((leaf - 1) \div step) + 1)
       /\ \A x \in 1..(Len(cuts) - 1) :
            Cardinality({y \in (Prefix(cuts, x-1) + 1)..Prefix(cuts, x) : IsVisible(lv, y)}) = step
SliceOK(e, i) ==
  LET sc == PagesOf(e)[i]
      lv == Levels(sc)
      leaf == Slots(sc, NL(sc)) IN
  \A j \in 1..Len(e.slice[i]) :
     LET s == e.slice[i][j] IN
     /\ s.panic = ""
     /\ CutsOK(lv, s.rep, s.step, leaf, lv.hasrep)
     /\ CutsOK(lv, s.def, s.step, leaf, lv.hasdef)
SliceAllOK(e) == Len(e.slice) = Len(e.ser) /\ \A i \in 1..Len(e.slice) : NoF(PagesOf(e)[i]) => SliceOK(e, i)

\* ---- the unravelled column ---------------------------------------------------------------------
OffsetsOK(off) == /\ Len(off) >= 1 /\ off[1] = 0
                  /\ \A j \in 1..(Len(off) - 1) : off[j] <= off[j+1]
LayersShapeOK(e) ==
  LET ls == e.unr.layers
      ks == e.parts[1].kinds IN
  /\ Len(ls) = Len(ks)
  /\ \A k \in 1..Len(ls) :
       /\ ls[k].hasv \in BOOLEAN
       /\ \A j \in 1..Len(ls[k].v) : ls[k].v[j] \in {0, 1}
       /\ (~ls[k].hasv) => ls[k].v = <<>>
       /\ IF ks[k] = "L" THEN OffsetsOK(ls[k].off) /\ (ls[k].hasv => Len(ls[k].v) = Len(ls[k].off) - 1)
          ELSE ls[k].off = <<>>
\* slot counts, inner to outer: a missing validity buffer carries no length, the decoder takes it
\* from the child array
RECURSIVE OutCount(_, _, _)
OutCount(e, k, leaf) ==
  LET ly == e.unr.layers[k]
      kd == e.parts[1].kinds[k] IN
  IF kd = "L" THEN Len(ly.off) - 1
  ELSE IF ly.hasv THEN Len(ly.v)
  ELSE IF k = Len(e.unr.layers) THEN leaf
  ELSE IF kd = "F" THEN OutCount(e, k + 1, leaf) \div Dim
  ELSE OutCount(e, k + 1, leaf)
OutCol(e) ==
  LET n == Len(e.unr.layers)
      leaf == Slots(InputCol(e), n) IN
  [kinds |-> e.parts[1].kinds,
   hasv  |-> [k \in 1..n |-> e.unr.layers[k].hasv],
   v     |-> [k \in 1..n |-> IF e.unr.layers[k].hasv THEN e.unr.layers[k].v ELSE Rep(1, OutCount(e, k, leaf))],
   lens  |-> [k \in 1..n |-> IF e.parts[1].kinds[k] = "L" THEN OffLens(e.unr.layers[k].off) ELSE <<>>]]

UnravelOK(e) ==
  /\ e.unr.panic = ""
  /\ LayersShapeOK(e)
  /\ WellFormed(OutCol(e))
  /\ Tree(OutCol(e)) = Tree(InputCol(e))

\* Which named deviations of the code explain a wrong unravel result?  (the finding signature)
SameOut(a, b) == a.hasv = b.hasv /\ a.v = b.v /\ a.lens = b.lens
ModelOut(e, dv) == Unravel([i \in 1..Len(e.ser) |-> RecLevels(e.ser[i])], PagesOf(e), dv)
ModelAsRecorded(m) ==  \* the driver records no bits for a layer without validity buffer
  [m EXCEPT !.v = [k \in 1..Len(m.v) |-> IF m.hasv[k] THEN m.v[k] ELSE <<>>]]
RecordedOut(e) ==
  [hasv |-> [k \in 1..Len(e.unr.layers) |-> e.unr.layers[k].hasv],
   v    |-> [k \in 1..Len(e.unr.layers) |-> e.unr.layers[k].v],
   lens |-> [k \in 1..Len(e.unr.layers) |-> IF e.parts[1].kinds[k] = "L" THEN OffLens(e.unr.layers[k].off) ELSE <<>>]]
\* single deviations first, then all of them together
DevSets == <<{}, {"AllValidListLevelsFromZero"}, {"TruncateByOffsetsLen"}, {"AllValidAppendsNumItems"},
             {"AllValidListNotCounted"},
             {"AllValidListLevelsFromZero", "TruncateByOffsetsLen", "AllValidAppendsNumItems", "AllValidListNotCounted"}>>
DevName(d) == CASE d = {} -> "design"
                [] d = {"AllValidListLevelsFromZero"} -> "AllValidListLevelsFromZero"
                [] d = {"TruncateByOffsetsLen"} -> "TruncateByOffsetsLen"
                [] d = {"AllValidAppendsNumItems"} -> "AllValidAppendsNumItems"
                [] d = {"AllValidListNotCounted"} -> "AllValidListNotCounted"
                [] OTHER -> "several"
ExplainedBy(e) ==
  IF e.unr.panic # "" THEN "panic"
  ELSE IF ~(SerNoPanic(e) /\ LevelsOK(e) /\ Len(e.unr.layers) = Len(e.parts[1].kinds)
            /\ \A k \in 1..Len(e.unr.layers) : e.parts[1].kinds[k] = "L" => Len(e.unr.layers[k].off) >= 1)
       THEN "unexplained"
  ELSE LET ro == RecordedOut(e)
           ok == SelectSeq([i \in 1..Len(DevSets) |-> i],
                           LAMBDA i : SameOut(ModelAsRecorded(ModelOut(e, DevSets[i])), ro))
       IN IF ok = <<>> THEN "unexplained" ELSE DevName(DevSets[ok[1]])

ShapeName(e) == "any"

(***************************************************************************)
(* file events                                                             *)
(***************************************************************************)
\* value of row r of the column with leaf ids: same as Node but leaves carry their slot number
RECURSIVE NodeId(_, _, _, _)
NodeId(sc, k, j, base) ==
  IF sc.v[k][j] = 0 THEN [t |-> "n", id |-> -1, c |-> <<>>]
  ELSE CASE sc.kinds[k] = "I" -> [t |-> "i", id |-> base + j - 1, c |-> <<>>]
         [] sc.kinds[k] = "S" -> [t |-> "s", id |-> -1, c |-> <<NodeId(sc, k+1, j, base)>>]
         [] sc.kinds[k] = "F" -> [t |-> "f", id |-> -1, c |-> [i \in 1..Dim |-> NodeId(sc, k+1, (j-1)*Dim + i, base)]]
         [] sc.kinds[k] = "L" -> [t |-> "l", id |-> -1, c |-> [i \in 1..sc.lens[k][j] |-> NodeId(sc, k+1, Off(sc, k, j) + i, base)]]
\* file layout: the written column is Tile(sc, reps) (RepDefOps): `reps` copies of the scenario column
\* one after the other, which makes files with several mini-block chunks.  Leaf ids are positions
\* inside one copy, or -- when e.unique -- copy * (leaf slots per copy) + position.
FileRow(e, r) ==
  LET sc == e.parts[1] IN
  NodeId(sc, 1, (r % Rows(sc)) + 1, IF e.unique THEN (r \div Rows(sc)) * Slots(sc, NL(sc)) ELSE 0)
ReadOK(e, rd) ==
  /\ rd.error = ""
  /\ Len(rd.got) = Len(rd.rows)
  /\ \A x \in 1..Len(rd.rows) : rd.got[x] = FileRow(e, rd.rows[x])
FileOK(e) ==
  /\ e.error = ""
  /\ \A x \in 1..Len(e.reads) : ReadOK(e, e.reads[x])
\* Why could the file path go wrong on this column?  (the finding signature)
\* The pages of the file are reconstructed (one page, or the two written batches when every batch
\* becomes a page) and the named deviations of the rep/def code are tried on them.  Two more classes
\* belong to the page layouts of encodings/logical/primitive.rs:
\*  FullZipAllZeroDefDropped : encode_full_zip sizes the definition bits from the largest level that
\*      occurs; a page whose validity bitmaps contain no null gets no definition levels at all while
\*      its interpretation still says NullableItem, and unravel_validity unwraps a missing buffer
\*  AllNullPageRowsAreLevels : the layout for pages without any non-null item ("complex all null")
\*      takes the requested row range as a range of levels, which is only right when every row has
\*      exactly one level
FilePages(e) ==
  LET sc == e.parts[1] IN
  IF e.two_batches /\ e.tiny_pages /\ e.reps = 1 /\ Rows(sc) >= 2
  THEN <<SubCol(sc, 1, Rows(sc) \div 2), SubCol(sc, (Rows(sc) \div 2) + 1, Rows(sc))>>
  ELSE <<sc>>
FileExplainedBy(e) ==
  LET ps == FilePages(e)
      lvs == [i \in 1..Len(ps) |-> Levels(ps[i])]
      whole == ConcatAll(ps)
      singles == <<"AllValidListLevelsFromZero", "AllValidListNotCounted", "TruncateByOffsetsLen", "AllValidAppendsNumItems">>
      breaks(d) == LET o == Unravel(lvs, ps, {d}) IN ~(WellFormed(o) /\ Tree(o) = Tree(whole))
      hit == SelectSeq(singles, breaks)
      allnull(sc) == /\ \A j \in 1..Len(sc.v[NL(sc)]) : sc.v[NL(sc)][j] = 0 \/ Masked(sc, NL(sc), j)
                     /\ \E r \in 1..Rows(sc) : Len(RowLevels(sc, r)) # 1
  IN IF \E i \in 1..Len(ps) : Build(ps[i], {"ValidityLenDropsSpecials"}) # lvs[i]
                              \/ DebugAssertTrips(ps[i], {"ValidityLenDropsSpecials"})
     THEN "ValidityLenDropsSpecials"
     ELSE IF hit # <<>> THEN hit[1]
     ELSE IF \E i \in 1..Len(ps) : allnull(ps[i]) THEN "AllNullPageRowsAreLevels"
     ELSE IF e.fullzip /\ \E i \in 1..Len(ps) : (lvs[i].hasdef /\ \A x \in 1..Len(lvs[i].def) : lvs[i].def[x] = 0)
     THEN "FullZipAllZeroDefDropped"
     ELSE "unexplained"
FileClass(e) == FileExplainedBy(e)

(***************************************************************************)
(* the judgement                                                           *)
(***************************************************************************)
Checks == <<"input", "ser-panic", "levels", "garbage", "cw", "slice", "unravel", "file">>

\* <<check, class>> of the first failing check, or <<"ok","">>
Judge(e) ==
  IF e.ev = "api" THEN
     IF ~InputOK(e) THEN <<"input", "bad-scenario">>
     ELSE IF ~SerNoPanic(e) THEN <<"ser-panic", PanicExplainedBy(e)>>
     ELSE IF ~LevelsOK(e) THEN <<"levels", LevelsExplainedBy(e)>>
     ELSE IF ~GarbageOK(e) THEN <<"garbage", ShapeName(e)>>
     ELSE IF ~CwAllOK(e) THEN <<"cw", ShapeName(e)>>
     ELSE IF ~SliceAllOK(e) THEN <<"slice", ShapeName(e)>>
     ELSE IF ~UnravelOK(e) THEN <<"unravel", ExplainedBy(e)>>
     ELSE <<"ok", "">>
  ELSE IF e.ev = "file" THEN
     IF ~(WellFormed(e.parts[1]) /\ Legal(e.parts[1])) THEN <<"input", "bad-scenario">>
     ELSE IF ~FileOK(e) THEN <<"file", FileClass(e)>>
     ELSE <<"ok", "">>
  ELSE <<"input", "unknown-event">>

\* non-trivial: the column has a null, an empty list or garbage somewhere
NonTrivial(e) ==
  \E i \in 1..Len(e.parts) : LET sc == e.parts[i] IN
     \E k \in 1..NL(sc) : \/ \E j \in 1..Len(sc.v[k]) : sc.v[k][j] = 0
                          \/ (sc.kinds[k] = "L" /\ \E j \in 1..Len(sc.lens[k]) : sc.lens[k][j] = 0)

\* number of failures per <<check, class>>
Bump(cs, key) ==
  IF \E i \in 1..Len(cs) : cs[i].k = key
  THEN [i \in 1..Len(cs) |-> IF cs[i].k = key THEN [cs[i] EXCEPT !.n = @ + 1] ELSE cs[i]]
  ELSE Append(cs, [k |-> key, n |-> 1])

Init == /\ l = 1 /\ bad = <<>> /\ cls = <<>>
        /\ cnt = [events |-> 0, api |-> 0, file |-> 0, one |-> 0, concat |-> 0, pages |-> 0, nontrivial |-> 0,
                  reads |-> 0, rows_read |-> 0, ok |-> 0, nbad |-> 0]
Next == /\ l <= N
        /\ l' = l + 1
        /\ LET e == Rec[l]
               j == Judge(e) IN
           /\ bad' = IF j[1] = "ok" THEN bad
                     ELSE IF Len(bad) < 300 THEN Append(bad, <<l, e.id, j[1], j[2]>>) ELSE bad
           /\ cls' = IF j[1] = "ok" THEN cls ELSE Bump(cls, j)
           /\ cnt' = [cnt EXCEPT !.events = @ + 1,
                                 !.api = @ + B01(e.ev = "api"), !.file = @ + B01(e.ev = "file"),
                                 !.one = @ + B01(e.ev = "api" /\ e.how = "one"),
                                 !.concat = @ + B01(e.ev = "api" /\ e.how = "concat"),
                                 !.pages = @ + B01(e.ev = "api" /\ e.how = "pages"),
                                 !.nontrivial = @ + B01(j[1] # "input" /\ NonTrivial(e)),
                                 !.reads = @ + (IF e.ev = "file" THEN Len(e.reads) ELSE 0),
                                 !.rows_read = @ + (IF e.ev = "file"
                                                    THEN SumSeq([x \in 1..Len(e.reads) |-> Len(e.reads[x].rows)]) ELSE 0),
                                 !.ok = @ + B01(j[1] = "ok"), !.nbad = @ + B01(j[1] # "ok")]
TraceSpec == Init /\ [][Next]_tvars

Report == (l = N + 1) => PrintT(<<"REPORT", ToJson([events |-> N, bad |-> bad, counts |-> cnt, classes |-> cls])>>)
TraceAccepted == TLCGet("stats").diameter = N + 1
=============================================================================
