--------------------------- MODULE Trace_RowIdSeq ---------------------------
(* Validates recorded calls of the real RowIdSequence / U64Segment /
   rechunk_sequences / RowIdIndex / OffsetMapper (harness/src/bin/vh_rowidseq.rs)
   against the plain-list semantics of RowIdSeqOps and OffsetMapOps.

   The trace is a concatenation of scenarios.  A scenario starts with a "new"
   event (a sequence built from parts, each in a recorded encoding) and goes on
   with queries (len / get / slice / select / serde / rechunk: judged against
   the ghost list) and mutations (extend / delete / mask: judged against the
   same operation on the ghost list; `adv` = 0: the driver dropped the mutated
   value, 1: it kept it, 2: the mutation was applied to the value of the last
   "new" and kept).  The ghost
   follows the *observed* content after every accepted or rejected step, so a
   wrong step is reported once and the following steps are judged on their own.
   "index" and "map_offset" events are self-contained.

   Failures are aggregated in `bad` (signature = <<operator, class>> |-> <<count,
   first position>>) and reported by the final state, so one TLC run classifies the whole trace.              *)
EXTENDS RowIdSeqOps, OffsetMapOps, Json, IOUtils, SequencesExt

CONSTANTS K,          \* abstract ids 0..K-1
          EmbClass    \* "plain" | "u64max" (the top id is u64::MAX) | "huge" (spans >= 2^62)

Rec == ndJsonDeserialize(IOEnv.TRACE)
N   == Len(Rec)

VARIABLES l, ghost, base, bad, cnt, kinds, nontriv
tvars == <<l, ghost, base, bad, cnt, kinds, nontriv>>

Ops == {"univ", "new", "len", "get", "slice", "select", "serde", "rechunk", "extend", "delete", "mask",
        "reset", "index", "map_offset"}
OKST == 1

Decodable(xs) == \A i \in DOMAIN xs : xs[i] >= 0
TrailingEmpty(shape) == shape # <<>> /\ shape[Len(shape)][2] = 0

\* the layout of an "index" event as the oracle wants it: <<ids, set of deleted positions>>
LayoutOf(lay) == [f \in DOMAIN lay |-> <<lay[f][1], SeqRange(lay[f][2])>>]

\* Expected content after a mutation of the ghost list g
AfterMut(e, g) ==
   CASE e[1] = "extend" -> g \o e[2][1]
     [] e[1] = "delete" -> DeleteIds(g, SeqRange(e[2]))
     [] e[1] = "mask"   -> MaskPos(g, SeqRange(e[2]))

\* The judgement of one event against the ghost list g
OK(e, g) ==
  LET op == e[1] IN
  CASE op = "univ" -> e[3] = K /\ e[6] = EmbClass
    [] op = "new" -> e[4] = OKST /\ e[5] = Concat(e[2])
    [] op = "len" -> e[2] = OKST /\ e[3] = Len(g)
    [] op = "get" -> e[3] = OKST /\ e[4] = Get(g, e[2])
    \* (an event whose arguments do not fit the value it claims to operate on is rejected, not an error)
    [] op = "slice" -> e[2] + e[3] <= Len(g) /\ e[4] = OKST /\ e[5] = Slice(g, e[2], e[3])
    [] op = "select" -> e[3] = OKST /\ e[4] = Select(g, e[2])
    [] op = "serde" -> e[2] = OKST /\ e[3] = g /\ e[4]
    [] op = "rechunk" ->
          LET ok == RechunkOk(g, e[2], e[3] = 1) IN
          IF ok THEN e[5] = OKST /\ e[6] = RechunkChunks(g, e[2])
          ELSE e[5] = 0
    [] op \in {"extend", "delete", "mask"} -> e[4] = OKST /\ e[5] = AfterMut(e, g)
    [] op = "reset" -> TRUE
    [] op = "index" ->
          /\ e[4] = OKST
          /\ e[6] = 0
          /\ \A id \in 0..(K-1) :
                LET want == IndexGet(LayoutOf(e[2]), id) IN e[5][id+1] = want
    [] op = "map_offset" -> e[5] = OKST /\ e[6] = MapAll(SeqRange(e[2]), e[4])
    [] OTHER -> FALSE

\* Case class of an event: the finding signature is (operator, class)
PanicTag(e) == IF e[1] \in {"univ", "reset"} THEN "-" ELSE e[Len(e)]
OpClass(e, g) ==
  LET op == e[1] IN
  CASE op = "delete" -> IF Injective(e[2]) THEN "id-set" ELSE "duplicate-ids"
    [] op = "mask" -> IF Ascending(e[2]) THEN "ascending-positions" ELSE "unsorted-positions"
    [] op = "rechunk" -> IF SumSeq(e[2]) = Len(g)
                         THEN (IF TrailingEmpty(e[7]) THEN "exact-sizes-trailing-empty-segment" ELSE "exact-sizes")
                         ELSE IF SumSeq(e[2]) > Len(g) THEN "too-few-ids" ELSE "too-many-ids"
    [] op = "map_offset" -> IF Ascending(e[4]) THEN "increasing" ELSE "repeated-offset"
    [] OTHER -> "any"
Class(e, g) == <<EmbClass, OpClass(e, g), PanicTag(e)>>

Init == /\ l = 1 /\ ghost = <<>> /\ base = <<>> /\ bad = <<>>
        /\ cnt = [o \in Ops |-> 0] /\ kinds = [k \in 1..5 |-> 0] /\ nontriv = 0

KindsOfShape(shape, acc) ==
   [k \in 1..5 |-> IF acc[k] = 0 /\ \E i \in DOMAIN shape : shape[i][1] = k THEN 1 ELSE acc[k]]

Next ==
  /\ l <= N
  /\ l' = l + 1
  /\ LET e == Rec[l]
         known == e[1] \in Ops
         \* the value the event operates on: mutations with adv = 2 start from the last "new"
         g0 == IF known /\ e[1] \in {"extend", "delete", "mask"} /\ e[3] = 2 THEN base ELSE ghost
         good == known /\ OK(e, g0)
     IN
     \* failures are aggregated per signature <<operator, class>>: <<count, first position>>
     /\ bad' = IF good THEN bad
               ELSE LET sig == <<e[1], IF known THEN Class(e, g0) ELSE <<EmbClass, "unknown-op", "-">>>>
                    IN IF sig \in DOMAIN bad THEN [bad EXCEPT ![sig] = <<@[1] + 1, @[2]>>]
                       ELSE bad @@ (sig :> <<1, l>>)
     /\ cnt' = IF known THEN [cnt EXCEPT ![e[1]] = @ + 1] ELSE cnt
     /\ nontriv' = IF known /\ (CASE e[1] \in {"univ", "reset"} -> FALSE
                                  [] e[1] = "new" -> Concat(e[2]) # <<>>
                                  [] e[1] = "index" -> \E f \in DOMAIN e[2] : Len(e[2][f][1]) > Len(e[2][f][2])
                                  [] e[1] = "map_offset" -> e[2] # <<>> /\ e[4] # <<>>
                                  [] OTHER -> ghost # <<>>)
                   THEN nontriv + 1 ELSE nontriv
     /\ kinds' = IF known /\ e[1] \in {"new", "extend", "delete", "mask"} /\ e[4] = OKST
                 THEN KindsOfShape(e[6], kinds) ELSE kinds
     /\ IF ~known THEN UNCHANGED <<ghost, base>>
        ELSE CASE e[1] = "new" ->
                    \* follow the observed content when it can be read back, else the intended one
                    LET g == IF e[4] = OKST /\ Decodable(e[5]) THEN e[5] ELSE Concat(e[2])
                    IN ghost' = g /\ base' = g
               [] e[1] \in {"extend", "delete", "mask"} ->
                    /\ base' = base
                    /\ ghost' = IF e[3] = 0 THEN ghost
                                ELSE IF e[4] = OKST /\ Decodable(e[5]) THEN e[5] ELSE AfterMut(e, g0)
               [] e[1] = "reset" -> ghost' = base /\ base' = base
               [] OTHER -> UNCHANGED <<ghost, base>>
TraceSpec == Init /\ [][Next]_tvars

\* Reported at the end of the run (the state with l = N+1 is the last one).
Report == (l = N + 1) =>
            PrintT(<<"REPORT", ToJson([events |-> N,
                                         bad |-> [i \in 1..Cardinality(DOMAIN bad) |->
                                                    LET sig == SetToSeq(DOMAIN bad)[i]
                                                    IN <<sig[1], sig[2], bad[sig][1], bad[sig][2]>>],
                                         counts |-> cnt, kinds |-> kinds,
                                         nontrivial |-> nontriv])>>)
TraceAccepted == TLCGet("stats").diameter = N + 1
=============================================================================
