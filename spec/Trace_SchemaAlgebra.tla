------------------------ MODULE Trace_SchemaAlgebra ------------------------
(* Validates what harness/src/bin/vh_schema.rs recorded on the real
   lance-core / lance-file crates against SchemaAlgebraOps (property C43).

   A recorded schema is the list of its fields in pre-order, each
      <<k, id, parent_id, pk, name, logical type, nullable>>
   k = the node the field was built from (carried in the field metadata, so a
   lost metadata entry shows up as an unknown node), id / parent_id = the field
   attributes mapped back to node indices (0 = none, -1 = unassigned), pk = the
   node of the field it is nested in.

   Events:  tree, field_path, resolve, project, project_missing, by_ids, pair,
   roundtrip (all refer to the last tree event), parse, format (stand-alone).
   Failures are collected in bad as <<position, kind, part, class>>, class =
   the named deviation that explains the failure, or none.                        *)
EXTENDS SchemaAlgebraOps, Json, IOUtils, SequencesExt

Rec == ndJsonDeserialize(IOEnv.TRACE)
N   == Len(Rec)

VARIABLES l, bad, cnt, t, tid, info
tvars == <<l, bad, cnt, t, tid, info>>

EvKinds == {"tree", "field_path", "resolve", "project", "project_missing", "by_ids", "pair", "roundtrip",
          "parse", "format"}
Counters == EvKinds \cup {"bad_events", "bad_parts", "declined", "parse_ok", "resolve_hit", "special_top_trees", "nontrivial_pairs"}

SeqSet(s) == {s[i] : i \in 1 .. Len(s)}
LType(tr, k) == IF tr[k].k = "struct" THEN "struct"
                ELSE IF tr[k].k = "list"
                     THEN (IF \E c \in Children(tr, k) : tr[c].k = "struct" THEN "list.struct" ELSE "list")
                ELSE IF k % 2 = 0 THEN "int32" ELSE "string"
RECURSIVE PathIdx(_, _)
PathIdx(tr, i) == IF i = 0 THEN <<>> ELSE Append(PathIdx(tr, tr[i].p), i)

\* R is exactly the sub-schema of tr on the node set S, every kept field with its attributes.
\* idmode: "id" ids and parent ids preserved; "merge" ids preserved for nodes of A, unassigned for the rest;
\* "none" ids not judged
SchemaIs(tr, R, S, idmode, A) ==
   /\ Len(R) = Cardinality(S)
   /\ SeqSet([j \in 1 .. Len(R) |-> R[j][1]]) = S
   /\ \A j \in 1 .. Len(R) :
        LET k == R[j][1] IN
        /\ k \in Nodes(tr)
        /\ R[j][4] = tr[k].p
        /\ R[j][5] = NameStr[tr[k].n] /\ R[j][6] = LType(tr, k) /\ R[j][7] = (k % 2 = 1)
        /\ (idmode = "id" => R[j][2] = k /\ R[j][3] = tr[k].p)
        /\ (idmode = "merge" => IF k \in A THEN R[j][2] = k /\ R[j][3] = tr[k].p ELSE R[j][2] = -1)
OkSchema(tr, x, S) == x[1] = "ok" /\ SchemaIs(tr, x[2], S, "id", {})
\* Projection::to_bare_schema of the id set X
BareOK(tr, X, bare) == \/ OkSchema(tr, bare, ToSchemaSem(tr, X))
                       \/ (Childless(tr, X) /\ bare[1] = "panic")
ProjOK(tr, pr, X) == SeqSet(pr[1]) = X /\ Len(pr[1]) = Cardinality(X) /\ BareOK(tr, X, pr[2])

TopSpecial(tr, S) == \E i \in S : tr[i].p = 0 /\ tr[i].n \in {3, 4}
TopOf(tr, i) == IF tr[i].p = 0 THEN i ELSE CHOOSE a \in AncOf(tr, i) : tr[a].p = 0

TreeOf(nodes) == [i \in 1 .. Len(nodes) |-> [p |-> nodes[i][1], n |-> nodes[i][2], k |-> nodes[i][3]]]

\* ---- judgement: a set of failed parts <<part, class>> ------------------------------------------------
Fail(cond, part, class) == IF cond THEN {} ELSE {<<part, class>>}

Judge(e, tr) ==
  LET k == e[1] IN
  CASE k = "tree" ->
         IF e[5] # "ok" THEN {<<"build", "none">>}
         ELSE LET nt == TreeOf(e[4]) IN
              Fail(WellFormed(nt), "wellformed", "none")
              \cup Fail(WellFormed(nt) => SchemaIs(nt, e[6], Nodes(nt), "id", {}), "built", "none")
              \* Arrow -> Schema assigns pre-order ids 0, 1, ...
              \cup Fail(WellFormed(nt) => /\ SchemaIs(nt, e[7], Nodes(nt), "none", {})
                                           /\ \A j \in 1 .. Len(e[7]) :
                                                /\ e[7][j][1] = j /\ e[7][j][2] = j - 1
                                                /\ e[7][j][3] = nt[j].p - 1, "arrow-ids", "none")
              \cup Fail(e[8], "validate", "none")
    [] k = "field_path" ->
         LET i == e[3] IN
         Fail(e[4] = FieldPath(tr, i), "format", "none")
         \cup Fail(e[5] = PathIdx(tr, i), "resolve", "none")
         \cup Fail(e[6] = PathIdx(tr, i), "ancestry", "none")
    [] k = "resolve" ->
         LET r == Resolve(tr, e[3]) IN
         Fail(IF r = 0 THEN e[4] = <<-1>> ELSE e[4] = PathIdx(tr, r), "resolve", "none")
    [] k = "project" ->
         LET cl == e[3] S == ProjectSem(tr, SeqSet(cl))
             cls == IF TopSpecial(tr, {TopOf(tr, cl[j]) : j \in 1 .. Len(cl)}) THEN "TopLevelNameReparsed" ELSE "none" IN
         Fail(\A j \in 1 .. Len(cl) : Resolve(tr, e[4][j]) = cl[j], "driver-quoting", "none")
         \cup Fail(OkSchema(tr, e[5], S), "schema.project", cls)
         \cup Fail(e[6][1] = "ok" /\ SeqSet(e[6][2]) = S /\ BareOK(tr, S, e[6][3]), "projection.union_columns", "none")
    [] k = "project_missing" -> Fail(e[3][1] = "err", "project", "none")
                                \cup Fail(e[4][1] = "ok" /\ e[4][2] = <<>>, "project_or_drop", "none")
    [] k = "by_ids" ->
         LET X == SeqSet(e[3]) IN
         Fail(SchemaIs(tr, e[4], ByIdsSem(tr, X, FALSE), "id", {}), "project_by_ids", "none")
         \cup Fail(SchemaIs(tr, e[5], ByIdsSem(tr, X, TRUE), "id", {}), "project_by_ids_all", "none")
         \cup Fail(SeqSet(e[6]) = X /\ Len(e[6]) = Cardinality(X), "projection.ids", "none")
         \cup Fail(BareOK(tr, X, e[7]), "projection.to_schema", "none")
    [] k = "pair" ->
         LET A == SeqSet(e[3]) B == SeqSet(e[4])
             cls == IF TopSpecial(tr, A \cup B) THEN "TopLevelNameReparsed" ELSE "none"
             xcls == IF TopSpecial(tr, A \cup B) THEN "TopLevelNameReparsed"
                     ELSE IF TopListPartly(tr, A, B) THEN "ExcludeTopLevelListWhole" ELSE "none" IN
         Fail(OkSchema(tr, e[5], IntersectSem(tr, A, B)), "schema.intersection", cls)
         \cup Fail(OkSchema(tr, e[6], ExcludeSem(tr, A, B)), "schema.exclude", xcls)
         \cup Fail(e[7][1] = "ok" /\ SchemaIs(tr, e[7][2], MergeSem(tr, A, B), "merge", A), "schema.merge", cls)
         \cup Fail(ProjOK(tr, e[8], A), "projection.union_schema", "none")
         \cup Fail(ProjOK(tr, e[9], A \cup B), "projection.union_projection", "none")
         \cup Fail(ProjOK(tr, e[10], A \ B), "projection.subtract_projection", "none")
         \cup Fail(ProjOK(tr, e[11], A \cap B), "projection.intersect", "none")
         \cup Fail(ProjOK(tr, e[12], A \ B), "projection.subtract_schema", "none")
         \* intersecting with the same operand under foreign field ids / nullability keeps this schema's fields
         \cup Fail(e[13] = e[5], "schema.intersection.foreign-operand", cls)
    [] k = "roundtrip" ->
         LET A == SeqSet(e[3]) ar == e[4] pb == e[5] IN
         \* Arrow carries no field ids: the attributes and the nesting survive, ids are re-assigned in pre-order
         Fail(/\ ar[1] = "ok" /\ SchemaIs(tr, ar[2], A, "none", {}) /\ ar[3] = "1"
              /\ \A j \in 1 .. Len(ar[2]) :
                   /\ ar[2][j][2] = j - 1
                   /\ ar[2][j][3] = (IF ar[2][j][4] = 0 THEN -1
                                     ELSE (CHOOSE q \in 1 .. Len(ar[2]) : ar[2][q][1] = ar[2][j][4]) - 1),
              "arrow", "none")
         \* the stored form keeps everything
         \cup Fail(pb[1] = "ok" /\ SchemaIs(tr, pb[2], A, "id", {}) /\ pb[3] = "1" /\ e[6] = Cardinality(A), "stored", "none")
    [] k = "parse" -> LET p == ParsePath(e[2]) IN
                      Fail(IF p = ERR THEN e[3] = "err" ELSE e[3] = "ok" /\ e[4] = p, "parse_field_path", "none")
    [] k = "format" -> Fail(e[3] = FormatPath(<<e[2]>>) /\ e[4] = <<e[2]>>
                            /\ e[5] = FormatPath(<< <<"a">>, e[2] >>) /\ e[6] = << <<"a">>, e[2] >>,
                            "format_field_path", "none")
    [] OTHER -> {<<"unknown-kind", "none">>}

Declined(e, tr) ==
  IF e[1] = "pair" THEN Cardinality({j \in 8 .. 12 : e[j][2][1] = "panic"})
  ELSE IF e[1] = "by_ids" THEN (IF e[7][1] = "panic" THEN 1 ELSE 0) ELSE 0

Init == /\ l = 1 /\ bad = <<>> /\ cnt = [o \in Counters |-> 0] /\ t = <<>> /\ tid = -1 /\ info = <<>>

Bump(c, ks, decl, nbad) == [o \in Counters |-> IF o = "declined" THEN c[o] + decl
                                                ELSE IF o = "bad_parts" THEN c[o] + nbad
                                                ELSE IF o = "bad_events" THEN c[o] + (IF nbad > 0 THEN 1 ELSE 0)
                                                ELSE IF o \in ks THEN c[o] + 1 ELSE c[o]]
RECURSIVE AddAll(_, _, _, _)
AddAll(b, pos, kind, fs) ==
   IF fs = {} THEN b
   ELSE LET f == CHOOSE x \in fs : TRUE
            same == Cardinality({j \in 1 .. Len(b) : b[j][2] = kind /\ b[j][3] = f[1] /\ b[j][4] = f[2]}) IN
        \* at most 3 examples of every (kind, part, class); the totals are in cnt.bad_parts
        AddAll(IF same < 3 THEN Append(b, <<pos, kind, f[1], f[2]>>) ELSE b, pos, kind, fs \ {f})

Next ==
  /\ l <= N
  /\ l' = l + 1
  /\ LET e == Rec[l] k == e[1]
         standalone == k \in {"parse", "format"}
         newtree == k = "tree" /\ e[5] = "ok"
         cur == IF newtree THEN TreeOf(e[4]) ELSE t
         \* an event that refers to another tree than the current one cannot be judged
         stray == ~standalone /\ k # "tree" /\ (k \notin EvKinds \/ e[2] # tid)
         fs == IF stray THEN {<<"stray-event", "none">>} ELSE Judge(e, cur) IN
     /\ t' = IF newtree /\ WellFormed(TreeOf(e[4])) THEN TreeOf(e[4]) ELSE t
     /\ tid' = IF k = "tree" THEN e[2] ELSE tid
     /\ bad' = AddAll(bad, l, k, fs)
     /\ info' = info
     /\ cnt' = IF k \notin EvKinds THEN Bump(cnt, {}, 0, 1)
               ELSE Bump(cnt, {k}
                         \cup (IF k = "parse" /\ e[3] = "ok" THEN {"parse_ok"} ELSE {})
                         \cup (IF k = "resolve" /\ e[4] # <<-1>> THEN {"resolve_hit"} ELSE {})
                         \cup (IF newtree /\ TopSpecial(cur, Nodes(cur)) THEN {"special_top_trees"} ELSE {})
                         \cup (IF k = "pair" /\ ~stray /\ e[3] # <<>> /\ e[4] # <<>> /\ e[3] # e[4] THEN {"nontrivial_pairs"} ELSE {}),
                         IF stray THEN 0 ELSE Declined(e, cur), Cardinality(fs))
TraceSpec == Init /\ [][Next]_tvars

Report == (l = N + 1) =>
            PrintT(<<"REPORT", ToJson([events |-> N, bad |-> bad, counts |-> cnt])>>)
TraceAccepted == TLCGet("stats").diameter = N + 1
=============================================================================
