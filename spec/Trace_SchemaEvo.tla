--------------------------- MODULE Trace_SchemaEvo ---------------------------
(* Validates recorded schema-evolution histories executed by
   harness/src/bin/vh_table.rs against SchemaEvo.tla's semantics (C14).
   The observed table is the scan-ordered sequence of cell records plus the
   schema (name, field id); every step is judged by the relation its operation
   must satisfy; failures are collected in `bad`.                             *)
EXTENDS Naturals, Integers, Sequences, FiniteSets, TLC, Json, IOUtils, SequencesExt, Sql3VL

Rec == ndJsonDeserialize(IOEnv.TRACE)
N   == Len(Rec)

VARIABLES l, cells, schema, everIds, dropped, scn, bad, cnt
tvars == <<l, cells, schema, everIds, dropped, scn, bad, cnt>>

SeqToSet(s) == {s[i] : i \in 1..Len(s)}
IsErr(P) == "error" \in DOMAIN P
PScanCells(P) == LET RECURSIVE go(_)
                     go(i) == IF i > Len(P.frags) THEN <<>>
                              ELSE [j \in 1..Len(P.frags[i].rows) |-> P.frags[i].rows[j].c] \o go(i+1)
                 IN go(1)
PSchema(P) == [i \in 1..Len(P.schema) |-> [name |-> P.schema[i].name, id |-> P.schema[i].id]]
NamesOf(sc) == {sc[i].name : i \in 1..Len(sc)}
IdsOf(sc) == {sc[i].id : i \in 1..Len(sc)}
IdOfName(sc, n) == (CHOOSE f \in SeqToSet(sc) : f.name = n).id
RestrictTo(r, cs) == [c \in cs |-> r[c]]

Ops == {"create", "append", "delete", "compact", "add_column", "join_column", "drop_column", "rename_column", "scenarios"}
JoinVal(src, k) == IF \E i \in 1..Len(src) : src[i][1] = k
                   THEN src[CHOOSE i \in 1..Len(src) : src[i][1] = k][2] ELSE NULL
\* the value the added column must hold in a row: from the SQL expression, or from the key join
Wanted(st, row) == IF st.op = "join_column" THEN JoinVal(st.src, row.id) ELSE EvalExpr(st.setexpr, row)

\* judgement: set of <<invariant, class>>
Judge(e) ==
  LET st == e.step
      op == st.op
      P == e.latest
  IN
  IF IsErr(P) THEN {<<"LatestUnreadable", op>>}
  ELSE
  LET C == PScanCells(P)
      S == PSchema(P)
      common == NamesOf(schema) \cap NamesOf(S)
      uniq == IF \A i, j \in 1..Len(S) : i # j => S[i].id # S[j].id THEN {} ELSE {<<"FieldIdsUnique", op>>}
      shape == IF \A i \in 1..Len(C) : DOMAIN C[i] = NamesOf(S) THEN {} ELSE {<<"RowsMatchSchema", op>>}
  IN uniq \cup shape \cup
  (IF e.res # "ok" THEN (IF C = cells /\ S = schema THEN {} ELSE {<<"FailedHasNoEffect", op>>})
   ELSE
   CASE op \in {"add_column", "join_column"} ->
          LET n == st.name
              newFields == {f \in SeqToSet(S) : f.name = n}
          IN (IF Len(S) = Len(schema) + 1 /\ SubSeq(S, 1, Len(schema)) = schema /\ S[Len(S)].name = n THEN {} ELSE {<<"EvolutionPreservesOthers", "schema">>})
             \* (lance may hand a dropped column's field id out again: the dropped data is tombstoned in the
             \*  data files, so only the observable promise -- the dropped values never show -- is judged)
             \cup (IF Len(C) = Len(cells) /\ (\A i \in 1..Len(cells) : RestrictTo(C[i], NamesOf(schema)) = cells[i])
                   THEN {} ELSE {<<"EvolutionPreservesOthers", "values-or-order">>})
             \cup (IF Len(C) = Len(cells) /\ n \in NamesOf(S) /\ (\A i \in 1..Len(cells) : C[i][n] = Wanted(st, cells[i]))
                   THEN {}
                   ELSE IF n \in DOMAIN dropped /\ Len(C) = Len(cells) /\ n \in NamesOf(S)
                           /\ (\E i \in 1..Len(cells) : cells[i].id \in DOMAIN dropped[n] /\ C[i][n] = dropped[n][cells[i].id]
                                                       /\ C[i][n] # Wanted(st, cells[i]))
                        THEN {<<"DroppedDataNeverResurfaces", "readd">>}
                        ELSE {<<"AddedValuesExact", "add">>})
     [] op = "drop_column" ->
          (IF S = SelectSeq(schema, LAMBDA f : f.name # st.name) THEN {} ELSE {<<"EvolutionPreservesOthers", "schema">>})
          \cup (IF Len(C) = Len(cells) /\ (\A i \in 1..Len(cells) : C[i] = RestrictTo(cells[i], (DOMAIN cells[i]) \ {st.name}))
                THEN {} ELSE {<<"EvolutionPreservesOthers", "values-or-order">>})
     [] op = "rename_column" ->
          (IF S = [i \in 1..Len(schema) |-> IF schema[i].name = st.name THEN [schema[i] EXCEPT !.name = st.to] ELSE schema[i]]
           THEN {} ELSE {<<"EvolutionPreservesOthers", "schema">>})
          \cup (IF Len(C) = Len(cells)
                   /\ (\A i \in 1..Len(cells) : /\ DOMAIN C[i] = ((DOMAIN cells[i]) \ {st.name}) \cup {st.to}
                                                /\ C[i][st.to] = cells[i][st.name]
                                                /\ \A c \in (DOMAIN cells[i]) \ {st.name} : C[i][c] = cells[i][c])
                THEN {} ELSE {<<"EvolutionPreservesOthers", "values-or-order">>})
     [] op = "append" ->
          LET cols == st.cols
              newRows == [i \in 1..Len(st.rows) |-> [c \in SeqToSet(cols) |-> st.rows[i][CHOOSE k \in 1..Len(cols) : cols[k] = c]]]
          IN (IF S = schema /\ C = cells \o newRows THEN {} ELSE {<<"EvolutionPreservesOthers", "append">>})
     [] op = "delete" ->
          (IF S = schema /\ C = SelectSeq(cells, LAMBDA r : r.id \notin SeqToSet(st.pred[3])) THEN {} ELSE {<<"EvolutionPreservesOthers", "delete">>})
     [] op = "compact" ->
          (IF S = schema /\ C = cells THEN {} ELSE {<<"EvolutionPreservesOthers", "compact">>})
     [] OTHER -> {})

Init == /\ l = 1 /\ cells = <<>> /\ schema = <<>> /\ everIds = {} /\ dropped = <<>> /\ scn = 0 /\ bad = <<>>
        /\ cnt = [o \in Ops \cup {"ok", "failed"} |-> 0]

Step(e) ==
  LET st == e.step
      op == st.op
      P == e.latest
      first == schema = <<>>
      pairs == IF first THEN (IF IsErr(P) THEN {<<"LatestUnreadable", op>>} ELSE {}) ELSE Judge(e)
      usable == ~IsErr(P)
  IN /\ bad' = IF pairs = {} \/ Len(bad) >= 300 THEN bad
               ELSE bad \o SetToSeq({<<l, e.scn, e.i, op, pr[1], pr[2]>> : pr \in pairs})
     \* adopt the observation (re-synchronise)
     /\ cells' = IF usable THEN PScanCells(P) ELSE cells
     /\ schema' = IF usable THEN PSchema(P) ELSE schema
     /\ everIds' = IF usable THEN everIds \cup IdsOf(PSchema(P)) ELSE everIds
     \* remember the data of a dropped column: name -> (key -> value)
     /\ dropped' = IF usable /\ op = "drop_column" /\ e.res = "ok" /\ ~first /\ st.name \in NamesOf(schema)
                   THEN [n \in (DOMAIN dropped) \cup {st.name} |->
                           IF n = st.name THEN [k \in {cells[i].id : i \in 1..Len(cells)} |->
                                                  (CHOOSE r \in SeqToSet(cells) : r.id = k)[st.name]]
                           ELSE dropped[n]]
                   ELSE dropped
     /\ cnt' = [cnt EXCEPT ![IF op \in Ops THEN op ELSE "failed"] = @ + 1, ![IF e.res = "ok" THEN "ok" ELSE "failed"] = @ + 1]
     /\ UNCHANGED scn

Next == /\ l <= N /\ l' = l + 1
        /\ LET e == Rec[l] IN
           IF e.ev = "reset"
           THEN /\ cells' = <<>> /\ schema' = <<>> /\ everIds' = {} /\ dropped' = <<>> /\ scn' = e.scn /\ bad' = bad
                /\ cnt' = [cnt EXCEPT !["scenarios"] = @ + 1]
           ELSE Step(e)
TraceSpec == Init /\ [][Next]_tvars
Report == (l = N + 1) => PrintT(<<"REPORT", ToJson([events |-> N, bad |-> bad, counts |-> cnt])>>)
TraceAccepted == TLCGet("stats").diameter = N + 1
=============================================================================
