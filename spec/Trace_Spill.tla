---------------------------- MODULE Trace_Spill ----------------------------
(* Validates traces recorded by harness/src/bin/vh_spill.rs against SpillOps.

   Spill events:
     {"k":"reset","sc":id,"limit2":L,..}
     {"k":"step","sc":id,"i":n,"step":[op,a],"res":[..],"file":b,..}
        op = write (a = batch index, -1 = expected to be rejected) | finish | error | open | next (a = reader)
     {"k":"panic","sc":id,..}
   Every step must be the step of the model (atomic write(), SpillOps.WriteAllSteps): same result
   (the rows of the delivered batch, end, error, pending, ok, rejected), same "spill file exists".
   After every explained step the C41 invariants are evaluated on the state.

   Chunker events:
     {"k":"universe",..}, {"k":"chunk","fn":f,"sizes":[..],"n":n,"out":..,"err":..}
   judged independently: the flattened output chunks must be exactly Split(rows, n) -- i.e. the
   Chunk law: concatenation equals the input, every chunk but the last has n rows, the last 1..n. *)
EXTENDS SpillOps, TLC, Json, IOUtils

Rec == ndJsonDeserialize(IOEnv.TRACE)
N   == Len(Rec)

VARIABLES l, sp, rds, skip, bad, viol, st
tvars == <<l, sp, rds, skip, bad, viol, st>>

Same(a, b) == ToJson(a) = ToJson(b)
SetOf(seq) == {seq[i] : i \in 1..Len(seq)}
RowsOf(id) == <<3 * id, 3 * id + 1, 3 * id + 2>>

(* the model's step: [sp, rds, res] or res = <<"illegal">> *)
Step(step) ==
  LET op == step[1]  a == step[2]
      same(res) == [sp |-> sp, rds |-> rds, res |-> res]
      live == sp.sst \in {"Buffering", "Spilling"}
  IN CASE op = "write" ->
            IF live THEN (IF a = sp.nw THEN [sp |-> WriteAllSteps(sp, a), rds |-> rds, res |-> <<"ok">>]
                          ELSE same(<<"illegal">>))
            ELSE same(<<"err", IF sp.sst = "Finished" THEN "finished" ELSE "errored">>)
       [] op = "finish" ->
            IF live THEN [sp |-> FinishS(sp), rds |-> rds, res |-> <<"ok">>]
            ELSE same(<<"err", IF sp.sst = "Finished" THEN "finished" ELSE "errored">>)
       [] op = "error" -> [sp |-> ErrorS(sp), rds |-> rds, res |-> <<"ok">>]
       [] op = "open" -> IF a = Len(rds) + 1 THEN [sp |-> sp, rds |-> Append(rds, InitR), res |-> <<"ok", a>>]
                         ELSE same(<<"illegal">>)
       [] op = "next" ->
            IF a \in 1..Len(rds) /\ rds[a].state \in {"open", "waiting"}
            THEN LET r == ReadNext(sp, rds[a])
                     res == CASE r[2][1] = "batch" -> <<"batch", RowsOf(r[2][2])>>
                              [] r[2][1] = "error" -> <<"error", "injected">>
                              [] r[2][1] = "eof"   -> <<"end">>      \* what the reader reports at a premature EOF
                              [] OTHER -> r[2]
                 IN [sp |-> sp, rds |-> [rds EXCEPT ![a] = r[1]], res |-> res]
            ELSE same(<<"illegal">>)
       [] OTHER -> same(<<"illegal">>)

InvNames == <<"EveryReaderSeesAllInOrder", "PublishedOnDisk">>
Holds(nm, s, r) ==
  CASE nm = "EveryReaderSeesAllInOrder" -> \A i \in 1..Len(r) : SeenIsPrefix(s, r[i]) /\ EndMeansAll(s, r[i])
    [] nm = "PublishedOnDisk" -> PublishedOnDisk(s)
Broken(s, r) == SelectSeq(InvNames, LAMBDA nm : ~Holds(nm, s, r))

\* ---- chunker judgement ----
ChunkOK(e) ==
  LET xs   == Rows(e.sizes, 0)
      want == Split(Flat(xs), e.n)
  IN /\ e.err = ""
     /\ IF e.fn = "chunk_stream"
        THEN /\ Len(e.out) = Len(want)
             /\ \A k \in 1..Len(want) : Same(Flat(e.out[k]), want[k])
             /\ \A k \in 1..Len(e.out) : \A j \in 1..Len(e.out[k]) : Len(e.out[k][j]) > 0
        ELSE Same(e.out, want)
ChunkClass(e) ==
  LET total == Len(Flat(Rows(e.sizes, 0))) IN
  <<e.fn, IF total = 0 THEN "empty" ELSE IF total % e.n = 0 THEN "multiple" ELSE "remainder",
    IF \E i \in 1..Len(e.sizes) : e.sizes[i] = 0 THEN "has-empty-batch" ELSE "no-empty-batch">>

Stat0 == [scenarios |-> 0, steps |-> 0, explained |-> 0, batches |-> 0, ends |-> 0, errors |-> 0, pendings |-> 0,
          resumed |-> 0, rejected |-> 0, file_reads |-> 0, switched |-> 0, spilled |-> 0, limits |-> {},
          ops |-> {}, full_readers |-> 0, chunk |-> 0, chunk_fns |-> {}, universe |-> <<>>]

Init == /\ l = 1 /\ sp = InitS(0) /\ rds = <<>> /\ skip = TRUE /\ bad = <<>> /\ viol = {} /\ st = Stat0
AddBad(b) == IF Len(bad) < 200 THEN Append(bad, b) ELSE bad

Next ==
  /\ l <= N
  /\ l' = l + 1
  /\ LET e == Rec[l] IN
     CASE e.k = "reset" ->
            /\ sp' = InitS(e.limit2) /\ rds' = <<>> /\ skip' = FALSE /\ viol' = {} /\ bad' = bad
            /\ st' = [st EXCEPT !.scenarios = @ + 1, !.limits = @ \cup {e.limit2}]
       [] e.k = "step" /\ skip -> UNCHANGED <<sp, rds, skip, bad, viol, st>>
       [] e.k = "step" /\ ~skip ->
            LET m == Step(e.step) IN
            IF m.res = <<"illegal">>
            THEN /\ bad' = AddBad([pos |-> l, sc |-> e.sc, kind |-> "illegal-step", class |-> <<e.step[1], sp.sst, "-">>])
                 /\ skip' = TRUE /\ UNCHANGED <<sp, rds, viol, st>>
            ELSE IF Same(m.res, e.res) /\ m.sp.exists = e.file
            THEN LET br == SelectSeq(Broken(m.sp, m.rds), LAMBDA nm : nm \notin viol)
                     a == e.step[2]
                     isnext == e.step[1] = "next"
                 IN /\ sp' = m.sp /\ rds' = m.rds /\ skip' = FALSE
                    /\ viol' = viol \cup SetOf(br)
                    /\ bad' = IF br = <<>> THEN bad
                              ELSE AddBad([pos |-> l, sc |-> e.sc, kind |-> "invariant", class |-> br])
                    /\ st' = [st EXCEPT !.steps = @ + 1, !.explained = @ + 1,
                                 !.ops = @ \cup {e.step[1]},
                                 !.batches = @ + (IF m.res[1] = "batch" THEN 1 ELSE 0),
                                 !.ends = @ + (IF m.res[1] = "end" THEN 1 ELSE 0),
                                 !.errors = @ + (IF m.res[1] = "error" THEN 1 ELSE 0),
                                 !.pendings = @ + (IF m.res[1] = "pending" THEN 1 ELSE 0),
                                 !.resumed = @ + (IF isnext /\ rds[a].state = "waiting" /\ m.res[1] # "pending" THEN 1 ELSE 0),
                                 !.rejected = @ + (IF m.res[1] = "err" THEN 1 ELSE 0),
                                 !.file_reads = @ + (IF isnext /\ m.res[1] = "batch" /\ m.rds[a].mode = "file" THEN 1 ELSE 0),
                                 !.switched = @ + (IF isnext /\ rds[a].mode = "buf" /\ m.rds[a].mode = "file" /\ rds[a].read > 0 THEN 1 ELSE 0),
                                 !.spilled = @ + (IF m.sp.exists /\ ~sp.exists THEN 1 ELSE 0),
                                 !.full_readers = @ + (IF m.res[1] = "end" /\ m.sp.nw > 0 THEN 1 ELSE 0)]
            ELSE /\ bad' = AddBad([pos |-> l, sc |-> e.sc, kind |-> "nonconformance",
                                   class |-> <<e.step[1], sp.sst,
                                               IF ~Same(m.res, e.res) THEN <<m.res[1], e.res[1]>> ELSE <<"file-exists">>>>])
                 /\ skip' = TRUE /\ st' = [st EXCEPT !.steps = @ + 1]
                 /\ UNCHANGED <<sp, rds, viol>>
       [] e.k = "chunk" ->
            /\ UNCHANGED <<sp, rds, skip, viol>>
            /\ st' = [st EXCEPT !.chunk = @ + 1, !.chunk_fns = @ \cup {e.fn}]
            /\ bad' = IF ChunkOK(e) THEN bad
                      ELSE AddBad([pos |-> l, sc |-> -1, kind |-> "chunk-law", class |-> ChunkClass(e)])
       [] e.k = "universe" ->
            /\ UNCHANGED <<sp, rds, skip, viol, bad>>
            /\ st' = [st EXCEPT !.universe = <<e.max_rows, e.max_batches, e.max_chunk>>]
       [] OTHER ->
            /\ bad' = AddBad([pos |-> l, sc |-> e.sc, kind |-> "panic", class |-> <<e.k, sp.sst, "-">>])
            /\ skip' = TRUE /\ UNCHANGED <<sp, rds, viol, st>>

TraceSpec == Init /\ [][Next]_tvars
Report == (l = N + 1) => PrintT(<<"REPORT", ToJson([events |-> N, bad |-> bad, stats |-> st])>>)
TraceAccepted == TLCGet("stats").diameter = N + 1
=============================================================================
