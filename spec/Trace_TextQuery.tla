-------------------------- MODULE Trace_TextQuery --------------------------
(* Validates full-text query results recorded by harness/src/bin/vh_text.rs
   against TextQueryOps!Judge (C23).

   Events:  reset {scn, stable}
            step  {scn, i, step, res, extra, tbl}
   tbl = {rows: [[key, fragment, indexed]...], deltas, ...} is the table as scanned after
   the step (ground truth for liveness and index coverage); the ghost `docs`
   remembers the token sequence written for each key and `model` the keys that
   should be live (a diverged table is reported, not silently trusted).
   Every query step carries one result per variant {limit, upper} (limited answers are only judged
   when the unlimited answers of the same query were accepted); failures are
   collected in `bad` as <<position, scenario, step, variant index, clause, <<class, where>>>>.
   A phrase query on an index built without positions may decline (error).     *)
EXTENDS TextQueryOps, Json, IOUtils, SequencesExt

Rec == ndJsonDeserialize(IOEnv.TRACE)
N   == Len(Rec)

VARIABLES l, T, ever, docs, model, hasIndex, withPos, stable, inIndex, purged, scn, bad, cnt
tvars == <<l, T, ever, docs, model, hasIndex, withPos, stable, inIndex, purged, scn, bad, cnt>>

IsErr(P) == "error" \in DOMAIN P
Counters == {"scenarios", "steps", "create", "append", "delete", "index", "optimize", "compact", "query", "step_failed",
             "results", "judged", "accepted", "nonempty", "declined_phrase_without_positions",
             "match-or", "match-and", "phrase", "bool", "limit", "limit_skipped", "upper",
             "with_deleted", "with_unindexed", "unindexed_match", "multi_delta", "multi_fragment", "with_purged"}
Bump(c, names) == [n \in DOMAIN c |-> IF n \in names THEN c[n] + 1 ELSE c[n]]
RECURSIVE BumpAll(_, _)
BumpAll(c, seqOfSets) == IF seqOfSets = <<>> THEN c ELSE BumpAll(Bump(c, Head(seqOfSets)), Tail(seqOfSets))

ObsRows(P, d) == {[key |-> P.rows[i][1], doc |-> IF P.rows[i][1] \in DOMAIN d THEN d[P.rows[i][1]] ELSE NullDoc,
                   indexed |-> (P.rows[i][3] = 1)] : i \in 1..Len(P.rows)}

Declined(st, r) == r.res # "ok" /\ ~withPos /\ HasKind(st.q, "phrase")
(* Deviation PurgedRowsStayInIndex (what lance does today, found by this check): on a table with
   stable row ids, compaction physically removes deleted rows but the inverted index keeps their
   entries and no deletion mask covers them any more; a query that such a row matches fails when
   the take finds fewer rows than the index returned (or loses result slots under a limit).
   `purged` holds the keys of those rows.                                                        *)
PurgedMatch(st) == stable /\ \E k \in purged : k \in DOMAIN docs /\ (\E t \in Terms(st.q) : t \in TokensOf(docs[k]))
JudgeResult(st, r) ==
  IF r.res # "ok"
  THEN (IF Declined(st, r) THEN {}
        ELSE IF PurgedMatch(st) THEN {<<"QueryFailed", <<"purged-row-in-index", "">>>>}
        ELSE {<<"QueryFailed", <<Kind(st.q), r.res>>>>})
  ELSE LET v0 == Judge(T, ever, st.q, r.variant.limit, r.rows)
           \* empty documents that were indexed and deleted later still count in the index statistics
           emptyEver == \E k \in DOMAIN docs : TokensOf(docs[k]) = {}
           v == {IF c[2] = <<"missed-rows", "unindexed">> /\ emptyEver
                 THEN <<c[1], <<"missed-beside-empty-documents", "unindexed">>>> ELSE c : c \in v0}
       IN
       IF r.variant.limit > 0 /\ PurgedMatch(st) /\ v # {} /\ (\A c \in v : c[1] = "LimitCount")
       THEN {<<"LimitCount", <<"purged-row-in-index", "">>>>} ELSE v
Facts(st, r) ==
  LET M == MatchSet(T, st.q) IN
  {"results", Kind(st.q)}
  \cup (IF r.res = "ok" THEN {"judged"} ELSE {})
  \cup (IF Declined(st, r) THEN {"declined_phrase_without_positions"} ELSE {})
  \cup (IF r.res = "ok" /\ Len(r.rows) > 0 THEN {"nonempty"} ELSE {})
  \cup (IF r.variant.limit > 0 THEN {"limit"} ELSE {})
  \cup (IF r.variant.upper THEN {"upper"} ELSE {})
  \cup (IF ever # Keys(T) THEN {"with_deleted"} ELSE {})
  \cup (IF purged # {} THEN {"with_purged"} ELSE {})
  \cup (IF \E x \in T : ~x.indexed THEN {"with_unindexed"} ELSE {})
  \cup (IF \E x \in T : ~x.indexed /\ x.key \in M THEN {"unindexed_match"} ELSE {})

Init == /\ l = 1 /\ T = {} /\ ever = {} /\ docs = <<>> /\ model = {} /\ hasIndex = FALSE /\ withPos = TRUE
        /\ stable = FALSE /\ inIndex = {} /\ purged = {}
        /\ scn = 0 /\ bad = <<>> /\ cnt = [n \in Counters |-> 0]

Step(e) ==
  LET st == e.step
      op == st.op
      P == e.tbl
      ok == e.res = "ok"
      usable == ~IsErr(P)
      wkeys == IF op \in {"create", "append"} /\ ok THEN {st.rows[i][1] : i \in 1..Len(st.rows)} ELSE {}
      docs1 == [k \in (DOMAIN docs) \cup wkeys |->
                  IF k \in wkeys THEN (CHOOSE i \in 1..Len(st.rows) : st.rows[i][1] = k) ELSE 0]
      docs2 == [k \in DOMAIN docs1 |-> IF k \in wkeys THEN st.rows[docs1[k]][2] ELSE docs[k]]
      model1 == IF op \in {"create", "append"} /\ ok THEN model \cup wkeys
                ELSE IF op = "delete" /\ ok THEN model \ {st.keys[i] : i \in 1..Len(st.keys)} ELSE model
      obs == IF usable THEN ObsRows(P, docs2) ELSE T
      diverged == usable /\ Keys(obs) # model1
      results == IF op = "query" /\ "results" \in DOMAIN e.extra THEN e.extra.results ELSE <<>>
      verdicts0 == [j \in 1..Len(results) |-> JudgeResult(st, results[j])]
      \* the judgement of a limited answer presupposes that the unlimited answer of the same query is right
      baseBad == \E j \in 1..Len(results) : results[j].variant.limit = 0 /\ verdicts0[j] # {}
      skipped(j) == results[j].variant.limit > 0 /\ baseBad
      verdicts == [j \in 1..Len(results) |-> IF skipped(j) THEN {} ELSE verdicts0[j]]
      newbad == (IF ~usable THEN {<<l, e.scn, e.i, 0, "TableUnreadable", <<op, "">>>>} ELSE {})
                \cup (IF diverged THEN {<<l, e.scn, e.i, 0, "TableDiverged", <<op, "">>>>} ELSE {})
                \cup (IF ~ok /\ op # "query" THEN {<<l, e.scn, e.i, 0, "StepFailed", <<op, e.res>>>>} ELSE {})
                \cup UNION {{<<l, e.scn, e.i, j, c[1], c[2]>> : c \in verdicts[j]} : j \in 1..Len(results)}
      facts == [j \in 1..Len(results) |-> Facts(st, results[j]) \cup (IF skipped(j) THEN {"limit_skipped"} ELSE IF verdicts[j] = {} THEN {"accepted"} ELSE {})]
  IN /\ bad' = IF newbad = {} \/ Len(bad) >= 400 THEN bad ELSE bad \o SetToSeq(newbad)
     /\ T' = obs
     /\ ever' = ever \cup wkeys \cup Keys(obs)
     /\ docs' = docs2
     /\ model' = IF usable THEN Keys(obs) ELSE model1
     /\ inIndex' = IF op = "index" /\ ok THEN Keys(obs) ELSE IF op = "optimize" /\ ok THEN inIndex \cup Keys(obs) ELSE inIndex
     /\ purged' = IF op = "index" /\ ok THEN {}
                  ELSE IF op = "compact" /\ ok /\ stable /\ hasIndex THEN purged \cup (inIndex \ Keys(obs)) ELSE purged
     /\ hasIndex' = IF usable THEN P.deltas > 0 ELSE hasIndex
     /\ withPos' = IF op = "index" /\ ok THEN st.with_position ELSE withPos
     /\ cnt' = BumpAll(Bump(cnt, {"steps", op} \cup (IF ~ok THEN {"step_failed"} ELSE {})
                                   \cup (IF usable /\ P.deltas > 1 /\ op = "query" THEN {"multi_delta"} ELSE {})
                                   \cup (IF usable /\ P.nfrags > 1 /\ op = "query" THEN {"multi_fragment"} ELSE {})), facts)
     /\ UNCHANGED <<scn, stable>>

Next == /\ l <= N /\ l' = l + 1
        /\ LET e == Rec[l] IN
           IF e.ev = "reset"
           THEN /\ T' = {} /\ ever' = {} /\ docs' = <<>> /\ model' = {} /\ hasIndex' = FALSE /\ withPos' = TRUE
                /\ stable' = e.stable /\ inIndex' = {} /\ purged' = {}
                /\ scn' = e.scn /\ bad' = bad /\ cnt' = Bump(cnt, {"scenarios"})
           ELSE Step(e)
TraceSpec == Init /\ [][Next]_tvars
Report == (l = N + 1) => PrintT(<<"REPORT", ToJson([events |-> N, bad |-> bad, counts |-> cnt])>>)
TraceAccepted == TLCGet("stats").diameter = N + 1
=============================================================================
