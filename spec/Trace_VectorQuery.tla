------------------------- MODULE Trace_VectorQuery -------------------------
(* Validates nearest-neighbour query results recorded by
   harness/src/bin/vh_vector.rs against VectorQueryOps!Judge (C22).

   Events:  reset {scn, stable, metric}
            step  {scn, i, step, res, extra, tbl}
   tbl = {rows: [[key, x, y, val, fragment, indexed]...], deltas, nparts, ...} is the table
   as scanned after the step (the ground truth for liveness and for which rows
   the vector index covers); the ghost `data` remembers what was written for each
   key and `model` the keys that should be live, so a table that diverged from
   the history is reported instead of silently trusted.
   Every query step carries one result per execution variant; each is judged
   separately and failures are collected in `bad` as
     <<position, scenario, step, variant index, clause, <<base mode, filter mode, fast>>>>.
   Answers of modes that do not claim exactness (partial probing) are judged for
   visibility only; duplicates, more than k rows, rows outside the index under
   fast search and failing queries are collected in `info` as observations.     *)
EXTENDS VectorQueryOps, Json, IOUtils, SequencesExt

Rec == ndJsonDeserialize(IOEnv.TRACE)
N   == Len(Rec)

VARIABLES l, T, ever, data, model, metric, stable, inIndex, purged, inScalar, purgedS, scalar, hasIndex, nparts, scn, bad, info, cnt
tvars == <<l, T, ever, data, model, metric, stable, inIndex, purged, inScalar, purgedS, scalar, hasIndex, nparts, scn, bad, info, cnt>>

SeqToSet(s) == {s[i] : i \in 1..Len(s)}
IsErr(P) == "error" \in DOMAIN P
ObsRows(P) == {[key |-> P.rows[i][1], vec |-> <<P.rows[i][2], P.rows[i][3]>>, val |-> P.rows[i][4],
                indexed |-> (P.rows[i][6] = 1)] : i \in 1..Len(P.rows)}

Counters == {"scenarios", "steps", "create", "append", "delete", "index", "scalar_index", "optimize", "compact", "query",
             "step_failed", "results", "judged", "accepted", "nonempty", "skipped_undefined",
             "flat", "ivf", "ivf-refine", "ivf-partial", "prefilter", "postfilter", "fast",
             "with_deleted", "with_unindexed", "k_exceeds_eligible", "ties_at_boundary", "multi_delta", "with_purged"}

Bump(c, names) == [n \in DOMAIN c |-> IF n \in names THEN c[n] + 1 ELSE c[n]]
RECURSIVE BumpAll(_, _)
BumpAll(c, seqOfSets) == IF seqOfSets = <<>> THEN c ELSE BumpAll(Bump(c, Head(seqOfSets)), Tail(seqOfSets))

\* the query of variant v of a query step
QueryOf(st, v) ==
  LET indexUsed == v.use_index /\ hasIndex IN
  [q |-> <<st.q[1], st.q[2]>>, k |-> st.k, metric |-> metric, filter |-> st.filter, hasFilter |-> st.hf,
   prefilter |-> v.prefilter, fast |-> v.fast, useIndex |-> v.use_index,
   exact |-> (~indexUsed \/ v.probes \in {"all", "over"} \/ nparts = 1)]
ModeOf(st, v) ==
  LET indexUsed == v.use_index /\ hasIndex
      Q == QueryOf(st, v)
  IN << IF ~indexUsed THEN "flat" ELSE IF ~Q.exact THEN "ivf-partial" ELSE IF v.refine > 0 THEN "ivf-refine" ELSE "ivf",
        IF ~st.hf THEN "nofilter" ELSE IF v.prefilter THEN "prefilter" ELSE "postfilter",
        IF v.fast THEN "fast" ELSE "full" >>
AllDefined(Q) == \A r \in T : Defined(Q.metric, r.vec, Q.q)

(* Deviation PurgedRowsStayInIndex (what lance does today, found by this check): on a table with
   stable row ids, compaction physically removes deleted rows but the vector index keeps their
   entries and no deletion mask covers them any more.  Such a row still competes for the top k
   inside the index and is lost afterwards (fewer than k results, possibly none) or the query
   fails when the take finds fewer rows than the index returned.  `purged` holds those rows
   (`purgedS` the same for the btree index on the filter column, whose stale entries reach the
   vector search through a scalar-index pre-filter).
   A rejected answer is attributed to the deviation when a purged row can be among the k nearest
   index entries and what was returned is otherwise sound.                                        *)
PurgedExplains(Q, indexUsed, r, refine) ==
  \* a pre-filter computed by scanning only allows live rows; one answered by a scalar index (which has the
  \* same stale entries) also allows the purged rows that pass it
  LET P == IF Q.hasFilter /\ Q.prefilter THEN (IF scalar THEN {p \in purged \cup purgedS : Passes(p, Q)} ELSE {}) ELSE purged
      post == Q.hasFilter /\ ~Q.prefilter
      base == IF post THEN Candidates(T, Q, hasIndex) ELSE Eligible(T, Q, hasIndex)
      \* the competition takes place inside the index: its live entries, the purged ones, k * refine slots
      S == {[key |-> x.key, vec |-> x.vec] : x \in {y \in base : y.indexed}} \cup {[key |-> x.key, vec |-> x.vec] : x \in P}
      Qi == [Q EXCEPT !.k = Q.k * (IF refine > 1 THEN refine ELSE 1)]
      R == r.rows
      sound == /\ Cardinality(RKeys(R)) = Len(R) /\ Len(R) <= Q.k
               /\ \A i \in 1..Len(R) : /\ R[i][1] \in Keys(Eligible(T, Q, hasIndex))
                                        /\ Abs(R[i][2] - Dist(Q.metric, RowOf(T, R[i][1]).vec, Q.q)) <= Tol(Q.metric)
               /\ \A i \in 1..(Len(R) - 1) : R[i][2] <= R[i + 1][2]
  IN /\ stable /\ indexUsed /\ P # {}
     /\ \E p \in P : Cardinality(S) <= Qi.k \/ Dist(Q.metric, p.vec, Q.q) <= KthDist(S, Qi)
     /\ (r.res # "ok" \/ sound)

\* judgement of one variant result: set of violated clauses
JudgeResult(st, r) ==
  LET Q == QueryOf(st, r.variant)
      indexUsed == r.variant.use_index /\ hasIndex
      v == IF r.res # "ok" THEN (IF Q.exact THEN {"QueryFailed"} ELSE {})    \* a failing inexact query is an observation
           ELSE IF ~AllDefined(Q) THEN {}
           ELSE Judge(T, ever, Q, hasIndex, r.rows)
  IN IF v # {} /\ v \subseteq {"QueryFailed", "WrongCount", "NotNearest", "PostFilterLostRow"} /\ AllDefined(Q)
        /\ PurgedExplains(Q, indexUsed, r, r.variant.refine)
     THEN {"PurgedRowsStayInIndex"} ELSE v

\* observations about answers of modes that do not claim exactness (reported, not judged)
ObserveResult(st, r) ==
  LET Q == QueryOf(st, r.variant) IN
  IF r.res # "ok" THEN (IF Q.exact THEN {} ELSE {"QueryFailed"})
  ELSE IF ~AllDefined(Q) THEN {} ELSE Observe(T, Q, hasIndex, r.rows)

\* counters describing what one variant result exercised
Facts(st, r) ==
  LET v == r.variant
      Q == QueryOf(st, v)
      m == ModeOf(st, v)
      E == Eligible(T, Q, hasIndex)
      tie == /\ Cardinality(E) > Q.k /\ AllDefined(Q)
             /\ Cardinality({x \in E : Dist(Q.metric, x.vec, Q.q) <= KthDist(E, Q)}) > Q.k
  IN {"results", m[1]}
     \cup (IF m[2] = "nofilter" THEN {} ELSE {m[2]})
     \cup (IF v.fast THEN {"fast"} ELSE {})
     \cup (IF r.res = "ok" /\ AllDefined(Q) THEN {"judged"} ELSE {})
     \cup (IF r.res = "ok" /\ ~AllDefined(Q) THEN {"skipped_undefined"} ELSE {})
     \cup (IF r.res = "ok" /\ Len(r.rows) > 0 THEN {"nonempty"} ELSE {})
     \cup (IF ever # Keys(T) THEN {"with_deleted"} ELSE {})
     \cup (IF purged \cup purgedS # {} /\ v.use_index /\ hasIndex THEN {"with_purged"} ELSE {})
     \cup (IF hasIndex /\ v.use_index /\ (\E x \in T : ~x.indexed) THEN {"with_unindexed"} ELSE {})
     \cup (IF Q.k > Cardinality(E) THEN {"k_exceeds_eligible"} ELSE {})
     \cup (IF tie THEN {"ties_at_boundary"} ELSE {})

Init == /\ l = 1 /\ T = {} /\ ever = {} /\ data = <<>> /\ model = {} /\ metric = "l2" /\ hasIndex = FALSE /\ nparts = 0
        /\ stable = FALSE /\ inIndex = {} /\ purged = {} /\ inScalar = {} /\ purgedS = {} /\ scalar = FALSE
        /\ scn = 0 /\ bad = <<>> /\ info = <<>> /\ cnt = [n \in Counters |-> 0]

StepRows(st) == {[key |-> st.rows[i][1], vec |-> <<st.rows[i][2], st.rows[i][3]>>, val |-> st.rows[i][4]] : i \in 1..Len(st.rows)}

Step(e) ==
  LET st == e.step
      op == st.op
      P == e.tbl
      ok == e.res = "ok"
      usable == ~IsErr(P)
      obs == IF usable THEN ObsRows(P) ELSE T
      \* what the history says the table holds after this step
      written == IF op \in {"create", "append"} /\ ok THEN StepRows(st) ELSE {}
      data1 == [k \in (DOMAIN data) \cup {w.key : w \in written} |->
                  IF k \in {w.key : w \in written} THEN CHOOSE w \in written : w.key = k ELSE data[k]]
      model1 == IF op \in {"create", "append"} /\ ok THEN model \cup {w.key : w \in written}
                ELSE IF op = "delete" /\ ok THEN model \ SeqToSet(st.keys) ELSE model
      diverged == usable /\ (\/ Keys(obs) # model1
                             \/ \E r \in obs : r.key \in DOMAIN data1 /\ (data1[r.key].vec # r.vec \/ data1[r.key].val # r.val))
      results == IF op = "query" /\ "results" \in DOMAIN e.extra THEN e.extra.results ELSE <<>>
      verdicts == [j \in 1..Len(results) |-> JudgeResult(st, results[j])]
      newbad == (IF ~usable THEN {<<l, e.scn, e.i, 0, "TableUnreadable", <<op, "", "">>>>} ELSE {})
                \cup (IF diverged THEN {<<l, e.scn, e.i, 0, "TableDiverged", <<op, "", "">>>>} ELSE {})
                \cup (IF ~ok /\ op # "query" THEN {<<l, e.scn, e.i, 0, "StepFailed", <<op, e.res, "">>>>} ELSE {})
                \cup UNION {{<<l, e.scn, e.i, j, c, ModeOf(st, results[j].variant)>> : c \in verdicts[j]} : j \in 1..Len(results)}
      facts == [j \in 1..Len(results) |-> Facts(st, results[j]) \cup (IF verdicts[j] = {} THEN {"accepted"} ELSE {})]
      newinfo == UNION {{<<l, e.scn, e.i, j, c, ModeOf(st, results[j].variant)>> : c \in ObserveResult(st, results[j])} : j \in 1..Len(results)}
  IN /\ bad' = IF newbad = {} \/ Len(bad) >= 300 THEN bad ELSE bad \o SetToSeq(newbad)
     /\ info' = IF newinfo = {} \/ Len(info) >= 100 THEN info ELSE info \o SetToSeq(newinfo)
     /\ T' = obs
     /\ ever' = ever \cup {w.key : w \in written} \cup Keys(obs)
     /\ data' = data1
     /\ model' = IF usable THEN Keys(obs) ELSE model1          \* re-synchronise: one divergence is reported once
     \* ghost: keys the vector index has entries for; rows among them that compaction removed physically
     /\ inIndex' = IF op = "index" /\ ok THEN Keys(obs) ELSE IF op = "optimize" /\ ok THEN inIndex \cup Keys(obs) ELSE inIndex
     /\ purged' = IF op = "index" /\ ok THEN {}
                  ELSE IF op = "compact" /\ ok /\ stable /\ hasIndex
                       THEN purged \cup {data[k] : k \in (inIndex \ Keys(obs)) \cap DOMAIN data}
                       ELSE purged
     /\ inScalar' = IF op = "scalar_index" /\ ok THEN Keys(obs) ELSE IF op = "optimize" /\ ok /\ scalar THEN inScalar \cup Keys(obs) ELSE inScalar
     /\ purgedS' = IF op = "scalar_index" /\ ok THEN {}
                   ELSE IF op = "compact" /\ ok /\ stable /\ scalar
                        THEN purgedS \cup {data[k] : k \in (inScalar \ Keys(obs)) \cap DOMAIN data}
                        ELSE purgedS
     /\ scalar' = IF usable THEN P.scalar ELSE scalar
     /\ hasIndex' = IF usable THEN P.deltas > 0 ELSE hasIndex
     /\ nparts' = IF usable THEN P.nparts ELSE nparts
     /\ cnt' = BumpAll(Bump(cnt, {"steps", op} \cup (IF ~ok THEN {"step_failed"} ELSE {})
                                   \cup (IF usable /\ P.deltas > 1 /\ op = "query" THEN {"multi_delta"} ELSE {})), facts)
     /\ UNCHANGED <<metric, stable, scn>>

Next == /\ l <= N /\ l' = l + 1
        /\ LET e == Rec[l] IN
           IF e.ev = "reset"
           THEN /\ T' = {} /\ ever' = {} /\ data' = <<>> /\ model' = {} /\ metric' = e.metric /\ hasIndex' = FALSE
                /\ stable' = e.stable /\ inIndex' = {} /\ purged' = {} /\ inScalar' = {} /\ purgedS' = {} /\ scalar' = FALSE
                /\ nparts' = 0 /\ scn' = e.scn /\ bad' = bad /\ info' = info /\ cnt' = Bump(cnt, {"scenarios"})
           ELSE Step(e)
TraceSpec == Init /\ [][Next]_tvars
Report == (l = N + 1) => PrintT(<<"REPORT", ToJson([events |-> N, bad |-> bad, info |-> info, counts |-> cnt])>>)
TraceAccepted == TLCGet("stats").diameter = N + 1
=============================================================================
