----------------------------- MODULE VectorQuery -----------------------------
(* Nearest-neighbour search over a table with deletions, rows appended after
   indexing, an IVF_FLAT index, index optimisation and compaction (C22).

   State: the live rows (key, vector, filter value, covered-by-index flag), the
   keys that ever existed, whether a vector index exists.  Keys 1..MaxKeys carry
   the vectors / filter values of a fixed pool (constant PoolId) that contains
   duplicate vectors and the zero vector.

   Actions: Append, Delete, BuildIndex(n partitions), Optimize, Compact, Query.
   The answer of a query is specified by the relation VectorQueryOps!Judge.
   TLC checks sanity laws of that relation on every reachable table and every
   query of the small query universe (QueriesMC), and generates the scenarios
   that the driver replays on lance (GenPrint / QryPrint / PoolPrint).           *)
EXTENDS VectorQueryOps, Json, SequencesExt

CONSTANTS MaxKeys, MaxSteps, PoolId, Metric, NParts, WithQueries, SmallMC

VARIABLES tbl, ever, hasIndex, nextKey, steps, last, hist
vars == <<tbl, ever, hasIndex, nextKey, steps, last, hist>>
view == <<tbl, ever, hasIndex, nextKey, steps, last>>

Grid == {<<x, y>> : x \in -2..2, y \in -2..2}

PoolVecOf(p) ==
  CASE p = 1 -> << <<0, 0>>, <<1, 0>>, <<1, 0>>, <<-1, 2>>, <<2, 2>>, <<0, -2>>, <<-2, -1>>, <<0, 0>> >>
    [] p = 2 -> << <<2, -2>>, <<0, 0>>, <<-2, 2>>, <<1, 1>>, <<1, 1>>, <<-1, -1>>, <<0, 1>>, <<2, -2>> >>
    [] p = 3 -> << <<1, 0>>, <<2, 0>>, <<-1, 0>>, <<0, 2>>, <<1, 1>>, <<2, 2>>, <<-2, 1>>, <<1, -2>> >>
    [] p = 4 -> << <<-1, 1>>, <<-1, 1>>, <<-1, 1>>, <<2, 1>>, <<1, 2>>, <<-2, -2>>, <<1, -1>>, <<-1, 1>> >>
PoolValOf(p) ==
  CASE p = 1 -> <<1, NULL, 2, 1, 0, NULL, 2, 1>>
    [] p = 2 -> <<0, 1, 1, NULL, 2, 0, NULL, 1>>
    [] p = 3 -> <<2, 2, NULL, 1, 0, 1, NULL, 0>>
    [] p = 4 -> <<NULL, 1, 0, 2, 1, 1, 0, NULL>>
PoolVec == PoolVecOf(PoolId)
PoolVal == PoolValOf(PoolId)
Row(k, ix) == [key |-> k, vec |-> PoolVec[k], val |-> PoolVal[k], indexed |-> ix]
\* cosine is only generated on pools without the zero vector
ASSUME Metric = "cosine" => \A k \in 1..MaxKeys : ~IsZero(PoolVec[k])
ASSUME MaxKeys <= 8

Filters == {<<"true">>, <<"false">>, <<"cmp", "val", "=", 1>>, <<"cmp", "val", "<>", 1>>, <<"cmp", "val", ">=", 1>>,
            <<"isnull", "val">>, <<"not", <<"cmp", "val", "=", 1>>>>, <<"in", "val", <<0, 2>>>>,
            <<"cmp", "id", "<=", 4>>}
MkQueryM(m, q, k, f, hf, pre, fast, ui) ==
  [q |-> q, k |-> k, metric |-> m, filter |-> f, hasFilter |-> hf, prefilter |-> pre, fast |-> fast,
   useIndex |-> ui, exact |-> TRUE]
MkQuery(q, k, f, hf, pre, fast, ui) == MkQueryM(Metric, q, k, f, hf, pre, fast, ui)
QPointsFor(m) == IF m = "cosine" THEN Grid \ {<<0, 0>>} ELSE Grid
QPoints == QPointsFor(Metric)
\* the complete query universe of a metric (replayed on the implementation, sampled per scenario)
AllQueriesFor(m) ==
  {MkQueryM(m, q, k, <<"true">>, FALSE, TRUE, FALSE, TRUE) : q \in QPointsFor(m), k \in 1..9}
  \cup {MkQueryM(m, q, k, f, TRUE, TRUE, FALSE, TRUE) : q \in QPointsFor(m), k \in 1..9, f \in Filters}
\* the universe used for the laws (execution flags included)
\* (SmallMC selects a reduced universe for the quick tier)
QPointsMC == (IF SmallMC THEN {<<1, 0>>, <<-2, 2>>} ELSE {<<0, 0>>, <<1, 0>>, <<-2, 2>>, <<1, 1>>}) \cap QPoints
FiltersMC == {<<"true">>, <<"cmp", "val", "=", 1>>, <<"cmp", "val", "<>", 1>>, <<"isnull", "val">>}
             \cup (IF SmallMC THEN {} ELSE {<<"false">>})
KsMC == IF SmallMC THEN {1, 2, 9} ELSE {1, 2, 3, 8, 9}
QueriesMC ==
  {MkQuery(q, k, f, f # <<"true">>, pre, fast, ui) :
     q \in QPointsMC, k \in KsMC, f \in FiltersMC, pre \in BOOLEAN, fast \in BOOLEAN, ui \in BOOLEAN}

Init ==
  /\ \E n \in {3, 4, 5} :
       /\ tbl = {Row(k, FALSE) : k \in 1..n} /\ ever = 1..n /\ nextKey = n + 1
       /\ hist = <<[op |-> "create", keys |-> [i \in 1..n |-> i]]>>
  /\ hasIndex = FALSE /\ steps = 0 /\ last = [op |-> "create"]

AppendRows(n) ==
  /\ nextKey + n - 1 <= MaxKeys
  /\ tbl' = tbl \cup {Row(k, FALSE) : k \in nextKey..(nextKey + n - 1)}
  /\ ever' = ever \cup nextKey..(nextKey + n - 1)
  /\ nextKey' = nextKey + n
  /\ last' = [op |-> "append", keys |-> [i \in 1..n |-> nextKey + i - 1]]
  /\ UNCHANGED hasIndex
DeleteRows(K) ==
  /\ K # {} /\ K \subseteq Keys(tbl) /\ Cardinality(K) <= 2
  /\ tbl' = {r \in tbl : r.key \notin K}
  /\ last' = [op |-> "delete", keys |-> SetToSeq(K)]
  /\ UNCHANGED <<ever, hasIndex, nextKey>>
BuildIndex(n) ==
  /\ tbl # {}
  /\ tbl' = {[r EXCEPT !.indexed = TRUE] : r \in tbl}
  /\ hasIndex' = TRUE
  /\ last' = [op |-> "index", nparts |-> n]
  /\ UNCHANGED <<ever, nextKey>>
Optimize ==
  /\ hasIndex
  /\ tbl' = {[r EXCEPT !.indexed = TRUE] : r \in tbl}
  /\ last' = [op |-> "optimize"]
  /\ UNCHANGED <<ever, hasIndex, nextKey>>
Compact ==
  \* rewrites fragments; rows, and which rows the index covers, are unchanged
  /\ last' = [op |-> "compact"]
  /\ UNCHANGED <<tbl, ever, hasIndex, nextKey>>
Query(Q) ==
  /\ WithQueries /\ last.op # "query"
  /\ (Q.fast => (Q.useIndex /\ hasIndex))
  /\ last' = [op |-> "query", query |-> Q, answer |-> Canon(tbl, Q, hasIndex, 1)]
  /\ UNCHANGED <<tbl, ever, hasIndex, nextKey>>

\* a table action is one step of the history
Pre == steps < MaxSteps /\ last.op # "query"
Post == steps' = steps + 1 /\ hist' = Append(hist, last')
N_Append == Pre /\ (\E n \in 1..2 : AppendRows(n)) /\ Post
N_Delete == Pre /\ (\E K \in SUBSET Keys(tbl) : DeleteRows(K)) /\ Post
N_Index == Pre /\ (\E n \in NParts : BuildIndex(n)) /\ Post
N_Optimize == Pre /\ Optimize /\ Post
N_Compact == Pre /\ Compact /\ Post
N_Query == (\E Q \in QueriesMC : Query(Q)) /\ UNCHANGED <<steps, hist>>
Next == N_Append \/ N_Delete \/ N_Index \/ N_Optimize \/ N_Compact \/ N_Query
Spec == Init /\ [][Next]_vars

TypeOK ==
  /\ \A r \in tbl : r.key \in ever /\ r.vec \in Grid /\ (r.indexed => hasIndex)
  /\ Cardinality(Keys(tbl)) = Cardinality(tbl)
  /\ nextKey <= MaxKeys + 1

(* ---- laws of the answer relation, evaluated on every generated query ---- *)
IsQ == last.op = "query"
Q0 == last.query
A0 == last.answer
\* 1. the relation is satisfiable: the constructive answers are accepted, whatever the tie-break
Satisfiable ==
  IsQ => /\ Judge(tbl, ever, Q0, hasIndex, A0) = {}
         /\ Judge(tbl, ever, Q0, hasIndex, Canon(tbl, Q0, hasIndex, -1)) = {}
\* 2. ties only permute rows: every accepted answer has the same distance sequence
TieFree == (IsQ /\ ~(Q0.hasFilter /\ ~Q0.prefilter)) => Dists(A0) = Dists(Canon(tbl, Q0, hasIndex, -1))
\* 3. visibility: deleted rows, rows failing the filter and (under fast search) rows outside the index never appear
VisibleOnly ==
  IsQ => \A i \in 1..Len(A0) :
           /\ A0[i][1] \in Keys(tbl)
           /\ Passes(RowOf(tbl, A0[i][1]), Q0)
           /\ ((Q0.fast /\ hasIndex) => RowOf(tbl, A0[i][1]).indexed)
\* 4. a pre-filtered exact query returns min(k, matching rows); post-filtering never returns more
CountLaw ==
  IsQ => IF Q0.hasFilter /\ ~Q0.prefilter
         THEN Len(A0) <= Len(Canon(tbl, [Q0 EXCEPT !.prefilter = TRUE], hasIndex, 1))
         ELSE Len(A0) = Min2(Q0.k, Cardinality(Eligible(tbl, Q0, hasIndex)))
\* 5. the relation discriminates: typical wrong answers are rejected
Drop1(R) == SubSeq(R, 2, Len(R))
Discriminates ==
  IsQ =>
    /\ (Len(A0) >= 1 /\ ~(Q0.hasFilter /\ ~Q0.prefilter)) => "WrongCount" \in Judge(tbl, ever, Q0, hasIndex, Drop1(A0))
    /\ (Len(A0) >= 1) => "DistanceWrong" \in Judge(tbl, ever, Q0, hasIndex, [A0 EXCEPT ![1] = <<A0[1][1], A0[1][2] + 1 + Tol(Q0.metric)>>])
    /\ (Len(A0) >= 2 /\ A0[1][2] # A0[Len(A0)][2]) =>
          "NotSorted" \in Judge(tbl, ever, Q0, hasIndex, [i \in 1..Len(A0) |-> A0[Len(A0) + 1 - i]])
    /\ \A d \in ever \ Keys(tbl) : "ReturnedDeleted" \in Judge(tbl, ever, Q0, hasIndex, <<<<d, 0>>>> \o A0)
    \* swapping the farthest returned row for a strictly farther eligible row is rejected
    /\ (~(Q0.hasFilter /\ ~Q0.prefilter) /\ Len(A0) >= 1) =>
         \A r \in Eligible(tbl, Q0, hasIndex) :
            (r.key \notin RKeys(A0) /\ Dist(Q0.metric, r.vec, Q0.q) > A0[Len(A0)][2] + Tol(Q0.metric)) =>
               LET n == Len(A0)
                   bad == [A0 EXCEPT ![n] = <<r.key, Dist(Q0.metric, r.vec, Q0.q)>>]
               IN "NotNearest" \in Judge(tbl, ever, Q0, hasIndex, bad)
\* 6. appended rows are searched unless fast search was requested: without fast, the answer only depends on liveness
AppendedSearched ==
  (IsQ /\ ~Q0.fast) => A0 = Canon({[r EXCEPT !.indexed = TRUE] : r \in tbl}, Q0, TRUE, 1)

(* ---- scenario generation ---- *)
\* execution variants of one query (the driver runs every variant of a query and records each answer);
\* probes: "all" = nprobes(number of partitions), "over" = more than there are, "min1" = minimum_nprobes(1)
\* without a maximum, "one" = nprobes(1) -- the last two are not exact when the index has several partitions
Variant(ui, pr, rf, pre, fast) == [use_index |-> ui, probes |-> pr, refine |-> rf, prefilter |-> pre, fast |-> fast]
VariantsFlat == {Variant(TRUE, "all", 0, pre, FALSE) : pre \in BOOLEAN}
VariantsIndexed ==
  {Variant(TRUE, pr, rf, pre, fast) : pr \in {"all", "over"}, rf \in {0, 1, 2}, pre \in BOOLEAN, fast \in BOOLEAN}
  \cup {Variant(FALSE, "all", 0, pre, FALSE) : pre \in BOOLEAN}
  \cup {Variant(TRUE, pr, 0, pre, fast) : pr \in {"min1", "one"}, pre \in BOOLEAN, fast \in BOOLEAN}
VarPrint == (steps = 0 /\ Cardinality(tbl) = 3) =>
              PrintT(<<"VAR", ToJson([flat |-> SetToSeq(VariantsFlat), indexed |-> SetToSeq(VariantsIndexed)])>>)
GenPrint == (steps = MaxSteps) => PrintT(<<"SCN", ToJson(hist)>>)
QryPrint == (steps = 0 /\ Cardinality(tbl) = 3) =>
              PrintT(<<"QRY", ToJson([l2 |-> SetToSeq(AllQueriesFor("l2")), dot |-> SetToSeq(AllQueriesFor("dot")),
                                      cosine |-> SetToSeq(AllQueriesFor("cosine"))])>>)
PoolPrint == (steps = 0 /\ Cardinality(tbl) = 3) =>
               PrintT(<<"POOL", ToJson([p \in 1..4 |-> [k \in 1..8 |-> <<k, PoolVecOf(p)[k][1], PoolVecOf(p)[k][2], PoolValOf(p)[k]>>]])>>)
=============================================================================
