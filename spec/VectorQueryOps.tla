--------------------------- MODULE VectorQueryOps ---------------------------
(* Meaning of a nearest-neighbour query (C22), as variable-free operators.

   Vectors are points <<x, y>> of the integer grid {-2..2}^2 (stored as f32 by the
   driver, so L2 and dot distances are exactly representable).  Distances are
   integers:
     l2      squared Euclidean distance            (lance's L2 is the squared distance)
     dot     1 - <a, q>                            (lance's dot "distance")
     cosine  1 - <a, q> / (|a| |q|)  in units of 1e-7, only for non-zero vectors,
             compared with tolerance CosTol (1e-6)

   A table row is a record [key, vec, val, indexed]; only live rows are in the
   table.  A query is a record
     [q, k, metric, filter, hasFilter, prefilter, fast, useIndex, exact]
   filter is a Sql3VL predicate over [id, val].  `exact` says that the execution
   mode claims exactness (flat search, or an IVF_FLAT index with every partition
   probed, with or without refine).

   The answer R is a sequence of <<key, reported distance>>.  It is specified as a
   relation (ties between equal distances may be broken in any way):
     Visible     every returned row is live and passes the filter            (every mode)
     InIndex     under fast search every returned row is covered by the index (exact modes)
     Distinct    no row twice, at most k rows                                 (exact modes)
     DistExact   reported distance = model distance of that row        (exact modes)
     Sorted      reported distances ascending                          (exact modes)
     Count       |R| = min(k, eligible rows)                           (exact modes, pre-filter)
     Nearest     no eligible row outside R is strictly closer than a row in R
   Post-filter mode (prefilter = FALSE with a filter) returns the rows of an
   exact top-k of the unfiltered query that pass the filter.                  *)
EXTENDS Sql3VL, TLC, SequencesExt

Abs(x) == IF x < 0 THEN -x ELSE x
Min2(a, b) == IF a <= b THEN a ELSE b

Dot(a, b) == a[1] * b[1] + a[2] * b[2]
L2(a, b) == (a[1] - b[1]) * (a[1] - b[1]) + (a[2] - b[2]) * (a[2] - b[2])

\* floor(sqrt(P) * 10^7) for the products P of two squared norms on the grid
Sqrt7(P) ==
  CASE P = 1 -> 10000000 [] P = 2 -> 14142135 [] P = 4 -> 20000000 [] P = 5 -> 22360679
    [] P = 8 -> 28284271 [] P = 10 -> 31622776 [] P = 16 -> 40000000 [] P = 20 -> 44721359
    [] P = 25 -> 50000000 [] P = 32 -> 56568542 [] P = 40 -> 63245553 [] P = 64 -> 80000000
NormProducts == {1, 2, 4, 5, 8, 10, 16, 20, 25, 32, 40, 64}
\* sanity of the table (first four digits; 32-bit integers)
ASSUME \A P \in NormProducts :
         LET s == Sqrt7(P) \div 10000 IN s * s <= P * 1000000 /\ (s + 1) * (s + 1) > P * 1000000

CosTol == 10          \* 1e-6 in units of 1e-7
IsZero(a) == a[1] = 0 /\ a[2] = 0
\* 1 - cos in units of 1e-7:  cos * 1e7 = dot * sqrt(P) * 1e7 / P
Cos7(a, q) == LET P == Dot(a, a) * Dot(q, q) IN 10000000 - ((Dot(a, q) * Sqrt7(P)) \div P)

Dist(metric, a, q) ==
  CASE metric = "l2" -> L2(a, q)
    [] metric = "dot" -> 1 - Dot(a, q)
    [] metric = "cosine" -> Cos7(a, q)
Tol(metric) == IF metric = "cosine" THEN CosTol ELSE 0
\* cosine is only defined (and only claimed) away from the zero vector
Defined(metric, a, q) == metric = "cosine" => (~IsZero(a) /\ ~IsZero(q))

SqlRow(r) == [id |-> r.key, val |-> r.val]
Passes(r, Q) == ~Q.hasFilter \/ Holds(Q.filter, SqlRow(r))
\* fast search only looks at rows covered by the index (when an index is used at all)
Searchable(r, Q, hasIndex) == (Q.fast /\ Q.useIndex /\ hasIndex) => r.indexed
Candidates(T, Q, hasIndex) == {r \in T : Searchable(r, Q, hasIndex)}
Eligible(T, Q, hasIndex) == {r \in Candidates(T, Q, hasIndex) : Passes(r, Q)}

RowOf(T, key) == CHOOSE r \in T : r.key = key
Keys(T) == {r.key : r \in T}
RKeys(R) == {R[i][1] : i \in 1..Len(R)}

\* the k-th smallest distance of a set of rows (only used when Cardinality(S) >= k)
KthDist(S, Q) ==
  LET dm == [r \in S |-> Dist(Q.metric, r.vec, Q.q)] IN
  CHOOSE d \in {dm[r] : r \in S} :
     /\ Cardinality({r \in S : dm[r] < d}) < Q.k
     /\ Cardinality({r \in S : dm[r] <= d}) >= Q.k

\* structural clauses: fast search stays inside the index, no row twice, at most k rows
Shape(T, Q, hasIndex, R) ==
  LET n == Len(R)
      known == {i \in 1..n : R[i][1] \in Keys(T)}
  IN (IF \E i \in known : ~Searchable(RowOf(T, R[i][1]), Q, hasIndex) THEN {"ReturnedUnindexedUnderFastSearch"} ELSE {})
     \cup (IF Cardinality(RKeys(R)) # n THEN {"DuplicateRow"} ELSE {})
     \cup (IF n > Q.k THEN {"MoreThanK"} ELSE {})
\* what is merely observed (not judged) about an answer of a mode that does not claim exactness
Observe(T, Q, hasIndex, R) == IF Q.exact THEN {} ELSE Shape(T, Q, hasIndex, R)

(* Judge an answer: the set of violated clauses (empty = accepted).
   `ever` is the set of keys that ever existed (to name deleted rows).          *)
Judge(T, ever, Q, hasIndex, R) ==
  LET C == Candidates(T, Q, hasIndex)
      E == Eligible(T, Q, hasIndex)
      post == Q.hasFilter /\ ~Q.prefilter
      n == Len(R)
      ks == RKeys(R)
      known == {i \in 1..n : R[i][1] \in Keys(T)}
      dist == [r \in T |-> Dist(Q.metric, r.vec, Q.q)]       \* evaluated once per judgement
      D(key) == dist[RowOf(T, key)]
      tol == Tol(Q.metric)
      \* claimed in every mode
      vis == (IF \E i \in 1..n : R[i][1] \notin Keys(T) /\ R[i][1] \in ever THEN {"ReturnedDeleted"} ELSE {})
             \cup (IF \E i \in 1..n : R[i][1] \notin Keys(T) /\ R[i][1] \notin ever THEN {"ReturnedUnknownRow"} ELSE {})
             \cup (IF \E i \in known : ~Passes(RowOf(T, R[i][1]), Q) THEN {"ReturnedFilteredOut"} ELSE {})
      \* claimed in the exact modes (in the other modes these are reported as observations, see Observe)
      shape == Shape(T, Q, hasIndex, R)
  IN vis \cup
     (IF ~Q.exact THEN {} ELSE shape) \cup
     (IF ~Q.exact \/ vis # {} \/ shape # {} THEN {}
      ELSE
        (IF \A i \in 1..n : Abs(R[i][2] - D(R[i][1])) <= tol THEN {} ELSE {"DistanceWrong"})
        \cup (IF \A i \in 1..(n - 1) : R[i][2] <= R[i + 1][2] THEN {} ELSE {"NotSorted"})
        \cup
        (IF ~post
         THEN (IF n = Min2(Q.k, Cardinality(E)) THEN {} ELSE {"WrongCount"})
              \cup (IF \A r \in E : r.key \in ks \/ (\A i \in 1..n : dist[r] + tol >= D(R[i][1]))
                    THEN {} ELSE {"NotNearest"})
         ELSE \* post-filter: rows of an exact unfiltered top-k that pass the filter
              LET full == Cardinality(C) >= Q.k
                  kth == IF full THEN KthDist(C, Q) ELSE 0
              IN (IF full /\ (\E i \in 1..n : D(R[i][1]) > kth + tol) THEN {"PostFilterBeyondTopK"} ELSE {})
                 \cup (IF \A r \in E : r.key \in ks \/ (full /\ dist[r] + tol >= kth)
                       THEN {} ELSE {"PostFilterLostRow"})))

(* A constructive answer: eligible rows ordered by (distance, tie), first k.
   tie = +1 breaks ties by ascending key, -1 by descending key.                 *)
TopK(S, Q, tie) ==
  LET d == [r \in S |-> Dist(Q.metric, r.vec, Q.q)]
      sorted == SetToSortSeq(S, LAMBDA a, b : d[a] < d[b] \/ (d[a] = d[b] /\ tie * a.key < tie * b.key))
      n == Min2(Q.k, Cardinality(S))
  IN [i \in 1..n |-> <<sorted[i].key, d[sorted[i]]>>]
Canon(T, Q, hasIndex, tie) ==
  IF Q.hasFilter /\ ~Q.prefilter
  THEN LET top == TopK(Candidates(T, Q, hasIndex), Q, tie)
       IN SelectSeq(top, LAMBDA e : Passes(RowOf(T, e[1]), Q))
  ELSE TopK(Eligible(T, Q, hasIndex), Q, tie)
Dists(R) == [i \in 1..Len(R) |-> R[i][2]]
=============================================================================
